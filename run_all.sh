#!/bin/sh
# ./run_all.sh <tier> <seed> [ids...]   runs the checks one after the other, prints one line per check
tier="${1:-quick}"; seed="${2:-1}"; shift 2 2>/dev/null
ids="$*"; [ -z "$ids" ] && ids="C01 C02 C03 C04 C05 C06 C07 C08 C09 C10 C11 C12 C13 C14 C15 C16 C17 C18 C19 C20"
d="$(cd "$(dirname "$0")" && pwd)"
mkdir -p "$d/harness/target/logs"
for id in $ids; do
    log="$d/harness/target/logs/$id-$tier-$seed.log"
    start=$(date +%s)
    VERIF_SEED=$seed "$d/check" $id $tier > "$log" 2>&1
    rc=$?
    end=$(date +%s)
    echo "$id tier=$tier seed=$seed exit=$rc secs=$((end-start)) violations=$(grep -c '^VIOLATION' "$log") known=$(grep -c '^KNOWN-FINDING' "$log") unlisted=$(grep -c 'unlisted violation signature' "$log")"
done
