#!/usr/bin/env python3
"""Regenerates MANIFEST.json from the table below (run after adding a property driver)."""
import json, subprocess

HOOK_COMMITS = subprocess.run(["git", "-C", "/repo", "log", "--format=%H %s", "--grep=^verif hooks"],
                              capture_output=True, text=True).stdout.strip().splitlines()

CLAIMED = {
    "C01": dict(
        category="exploration",
        text="Differential testing of the real compiler+VM against an independent strict reference interpreter over "
             "tens of thousands (quick) / hundreds of thousands (thorough) of generated well-typed programs covering "
             "the constructs the property lists; held-on-observed, not a proof.",
        design_ref="DESIGN.md §4 C01",
        note="Trusts the reference interpreter's reading of the documented semantics; only constructs the generator "
             "emits; programs the real checker rejects are skipped (counted). Known findings F17-F22 attributed by "
             "panic site or by a neutralising rewrite.",
        technique="runtime monitoring: generated programs executed on the real VM, outcome checked by a reference-interpreter oracle",
    ),
}

CLAIMED["C03"] = dict(
    category="exploration",
    text="Untyped closed terms over variables, lambda, application, let, literals, #Int+ / #Int<, if, closed ordered "
         "record literals, field access, tuples, array literals and the declared variant type Opt with a two-arm case "
         "are decided by an independent algorithm W in the harness (union-find types, generalisation of every let, row "
         "cells: closed rows are sequences, rows introduced by field access are open finite maps with a tail). "
         "gluon's typecheck_str must accept exactly the typable terms and its reported type, rendered and re-parsed "
         "by the harness, must equal W's principal type after numbering variables by first occurrence (quantifier "
         "placement ignored, scoping of inner foralls respected). Every accepted term is re-checked alpha-renamed, with "
         "an unused binding added, and bound with an annotation of its own reported type: acceptance and type must not change.",
    design_ref="DESIGN.md §4 C03",
    note="W is the specification only on this fragment (no implicit arguments, higher-rank annotations, GADTs, effects, "
         "update of open records). Findings: F52 (annotating with the reported type is rejected when the type has an "
         "inner quantifier), F29/C03 (terms needing an infinite type overflow the native stack instead of being rejected).",
    technique="runtime monitoring: differential against an executable reference model (algorithm W) plus metamorphic re-checks",
)

CLAIMED["C04"] = dict(
    category="translation_validation",
    text="Every generated program is compiled and run with the optimiser on and off on the real VM; result, failure and "
         "the host-observed effect log must coincide. The one permitted difference (skipped dead built-in arithmetic) is "
         "decided by counterfactual runs of the unoptimised compiler. Held on the pairs observed.",
    design_ref="DESIGN.md §4 C04",
    note="The unoptimised compiler is the reference; compiler crashes common to both modes are C01/C02 findings and are "
         "skipped here; F18b attributed by a neutralising rewrite.",
    technique="runtime monitoring: differential execution (optimised vs unoptimised) with an effect-log monitor on hooked host functions",
)
CLAIMED["C05"] = dict(
    category="exploration",
    text="Programs run under forced collection schedules (collect at every k-th allocation check, host collections between "
         "evaluations); outcome must not depend on the schedule, a structural heap oracle (reachable ⊆ live over all heaps "
         "from all roots) runs after every evaluation and collection, reclamation is compared with a same-VM baseline, and "
         "the allocation-heavy family is repeated under AddressSanitizer. Host-handle histories (the host evaluates programs "
         "whose results are built at run time, keeps the handles, drops some, collects, allocates) require every handle "
         "still held to read what it read when it was created, also under AddressSanitizer.",
    design_ref="DESIGN.md §4 C05",
    note="Quiescent-point oracle; roots missing only inside Rust frames are visible through outcomes/ASan only. Known "
         "findings F5 (module-level lazy) and F24 (spawned threads never reclaimed) keyed by workload family.",
    technique="runtime monitoring: GC-stress hook + heap-walk invariant hook + AddressSanitizer + schedule-differential outcomes",
)

CLAIMED["C11"] = dict(
    category="exploration",
    text="A family of 40 Rust types (integers, floats, u8, bool, char, String, unit, Option / Result / Vec / tuple / "
         "BTreeMap<String,_> nestings, derived structs P and Q, derived enum E and containers of them) with boundary "
         "and random values; routes per value: Pushable then Getable; through the Gluon function `\\x -> x` at "
         "fn(T) -> T; a Gluon observer generated from the type folding the value into an Int fingerprint that must "
         "equal the Rust fingerprint; the serde bridge (Ser must build the same graph shape as Pushable, then De must "
         "read it back, then the observer must see it). Floats compared bitwise. Mismatch matrix: a global of every "
         "type requested at every other type of the family must be refused unless both have the same Gluon type (a "
         "panic counts as granted). ASan phase over the same values.",
    design_ref="DESIGN.md §4 C11",
    note="Findings: F54 (Ser is untyped: Vec -> tuple-shaped data, Option flattened, char -> String, u8 -> Int, Result "
         "variant order, map -> record) and F55 (De cannot read tuples) are listed; the Pushable/Getable routes and the "
         "mismatch matrix (1556 mismatching requests refused) hold.",
    technique="runtime monitoring: round-trip and cross-language fingerprint oracles over a typed value family, exhaustive type-mismatch matrix, ASan",
)

CLAIMED["C12"] = dict(
    category="translation_validation",
    text="Each generated program is run from source and from its serialised bytecode (same VM, fresh VM with its imports "
         "loaded) and the canonical values are compared; truncations at sampled offsets, renamed module references and a "
         "VM that never loaded the imports must produce an error, never a panic or a different value.",
    design_ref="DESIGN.md §4 C12",
    note="serde_json encodings only (compact/pretty, debug info on/off); other corruptions are outside the property. "
         "F26 (compile_to_bytecode rejects what run_expr accepts) listed; F25 fixed.",
    technique="runtime monitoring: differential execution source vs bytecode plus fault injection on the serialised form, panic/crash monitor",
)
CLAIMED["C16"] = dict(
    category="exploration",
    text="Byte-for-byte comparison of value, type text and rendered diagnostics of the same sources in five contexts "
         "(two fresh VMs, long-lived VM in order and permuted, separate process) over batches of well-typed and ill-typed programs.",
    design_ref="DESIGN.md §4 C16",
    note="Entropy varied: process (ASLR, hash seeds), VM history, order. Compiler panics compare by panic site only. F27 listed.",
    technique="runtime monitoring: replay of identical inputs in varied contexts with a byte-equality oracle",
)

CLAIMED["C02"] = dict(
    category="exploration",
    text="Generated programs, AST-level mutants that the real checker still accepts, and multi-module programs are compiled "
         "and run under 8-32 combinations of the five boolean compiler settings; three monitors watch every accepted "
         "run: host panic / dead worker, internal shape complaints in the error text, and a type-directed walk of the "
         "returned value against the type the checker reported.",
    design_ref="DESIGN.md §4 C02",
    note="Acceptance is taken from the real checker (typecheck_str, judged separately from the run); crashes of the "
         "front end on programs it does not accept are C09's. Known findings (F7, F17-F22) attributed by panic site, "
         "workload family or neutralising rewrite / twin program.",
    technique="runtime monitoring: accepted-program population x settings matrix with panic, error-text and type-directed value-shape monitors",
)

CLAIMED["C06"] = dict(
    category="exploration",
    text="Every function of the std primitive modules (signatures read from the live VM) is called with boundary-value "
         "argument tuples in child processes whose death, signal or escaped panic is the witness; random histories of "
         "failing and succeeding evaluations on one VM are followed by a fixed probe set compared with a fresh VM and by "
         "frame / value-stack / memory baselines.",
    design_ref="DESIGN.md §4 C06",
    note="File-system, process, sleep and stdin primitives are skipped or confined to a scratch directory (listed in the "
         "evidence assumptions); primitives whose argument types have no boundary generator are counted. F1, F2, F30 fixed.",
    technique="runtime monitoring: child-process crash monitor over an enumerated primitive x boundary-argument sweep, used-vs-fresh VM differential, stack/memory baseline monitors; ASan and release builds in the thorough tier",
)
CLAIMED["C07"] = dict(
    category="exploration",
    text="Hook counters observe allocated_memory against memory_limit after every limit-checked allocation and the value "
         "stack against the configured limit and the static per-function bound at every instruction, over sweeps of "
         "limits and program families; tail-recursive families must show identical peak stack at n = 10, 10^3, 10^5; deep "
         "recursion / deep data run on an ordinary 8 MiB thread in a child process; interrupts are judged in call steps, a "
         "third of them arriving while the program runs inside io.catch with a handler that would return or keep running.",
    design_ref="DESIGN.md §4 C07",
    note="'Promptly' = at most 100 VM call steps after interrupt() returned. F4 (GC marking recursion exhausts the "
         "native stack on deep data) listed; F3 fixed.",
    technique="runtime monitoring: invariant counters on allocation and stack hooks, child-process crash monitor, logical step counter via the VM debug hook",
)

CLAIMED["C08"] = dict(
    category="exploration",
    text="Harness ASTs printed in all 32 combinations of five concrete-style switches are parsed by the real parser and "
         "compared structurally; spans are checked for containment, nesting and self-consistency (the text of a span "
         "re-parses to that subtree); ALL operator chains up to the bound over a six-operator fixity table are evaluated "
         "through the real pipeline and compared with a shunting-yard reference including conflict errors "
         "(exhaustive sub-run), built-in chains by value.",
    design_ref="DESIGN.md §4 C08",
    note="The printer's layout discipline is the trusted statement of the documented offside rule; tabs excluded.",
    technique="runtime monitoring: print/parse round-trip oracle with span-consistency monitor; exhaustive operator-chain enumeration against a reference grouping algorithm",
)

CLAIMED["C10"] = dict(
    category="exploration",
    text="Generated programs in varied concrete styles (incl. CRLF, own-line comments, one inline comment in a random token "
         "gap, a comment ending the input) and every .glu file of the repository under whitespace perturbations are "
         "formatted with format_expr; oracles: success, identical AST from the real parser with positions erased, "
         "literal tokens byte-for-byte, comment texts in order, second pass is a no-op.",
    design_ref="DESIGN.md §4 C10",
    note="Comments inside expressions are judged as one placement class (known finding F12 lists the failure kinds seen "
         "there), own-line placements individually (F12a: after an explicit `in`); F31 (second pass inserts blank lines "
         "after an opening bracket) and F32 (do-binding type annotation dropped) listed; F13 fixed.",
    technique="runtime monitoring: round-trip oracles over the real formatter (AST fingerprint, literal and comment scanners, idempotence)",
)

CLAIMED["C09"] = dict(
    category="exploration",
    text="Hostile text (random UTF-8, token soups, token-level mutations of generated programs and of the repository's "
         ".glu files, nesting ladders up to depth 200) is pushed through the real parser and through typecheck_str with "
         "and without the prelude in child processes; monitors: panic / death, a CPU-time budget enforced by an in-process "
         "watchdog, every error span inside its file on char boundaries, emit_string non-empty.",
    design_ref="DESIGN.md §4 C09",
    note="'Moderate nesting' = depth <= 200; 'never hangs' = 30 s process CPU time. Panic sites and span defects found on "
         "the unchanged tree are listed (F28, F29, F36-F39, ...); F14-F16 fixed.",
    technique="runtime monitoring: fuzz-style hostile inputs with crash, CPU-budget and error-span monitors",
)
CLAIMED["C18"] = dict(
    category="exploration",
    text="Types drawn from the surface type grammar are rendered with Display and TypeFormatter at widths 20-200 and read "
         "back by the real parser in the same position; the two ArcTypes must be equal.",
    design_ref="DESIGN.md §4 C18",
    note="Only types the grammar can spell; two renderings pinned by the repository's tests are listed (F34, F35); two "
         "others were repaired.",
    technique="runtime monitoring: render/parse round-trip oracle with structural type equality",
)

CLAIMED["C13"] = dict(
    category="exploration",
    text="Generated values (arrays of every representation, records, variants, closures, partial applications, lazies, "
         "run-time built strings, shared substructure, cycles through closures) are moved along every transfer route "
         "(host: re_root, argument of another thread's function, module global read elsewhere; gluon: channel up and "
         "round trip, captured value in a spawned action, `<-` into the parent's reference, forcing the parent's lazy "
         "from a child) between root / child / grandchild / sibling / unrelated VM, followed by random orders of "
         "collections and drops. Oracles: canonical graph shape (sharing and cycles explicit, hook value_shape) of the "
         "received value equals the original's and stays equal; the heap-ownership walk finds no dangling edge and no "
         "pointer into a heap that is neither the holder's own nor an ancestor's; ASan phases for use-after-free.",
    design_ref="DESIGN.md §4 C13",
    note="F10 (arrays of strings keep sender-heap strings) and F48 (shared lazies/references duplicated) found by this check "
         "and repaired; F9 (closures moved to an unrelated VM keep pointing at the source VM's code) is listed.",
    technique="runtime monitoring: heap-ownership invariant walk at quiescent points plus structural graph comparison, ASan",
)

CLAIMED["C14"] = dict(
    category="exploration",
    text="Rounds: one VM, a pool of in-memory modules (each body logs verif.fx.loaded, some export a lazy value whose "
         "computation ticks verif.fx), 2-16 OS threads each driving its own child thread through a generated program "
         "that imports an overlapping subset, allocates and forces the shared lazies, all released by one barrier; GC "
         "stress interleaves parent and child collections; seeded yields / spins / sleeps at the hook's sched points "
         "perturb the order; blocking-thread and tokio drivers; a second phase imports standard-library modules cold "
         "from 2-8 threads at once. Oracles: every thread's result equals its solo result on a fresh VM; every module "
         "body and every lazy computation ran exactly once (effect log); heap-ownership walk at quiescence; CPU-budget "
         "and blocked-forever monitors; ASan rounds (quick and thorough) and TSan rounds with -Zbuild-std (thorough).",
    design_ref="DESIGN.md §4 C14",
    note="F49 (extern modules published from the importing thread's heap: TSan data race on the GC mark bit in 202 of "
         "1500 rounds) found and repaired; F50 (rare `Expected extern: Unknown` ICE after waiting for a lazy under the "
         "tokio driver) and F51 (rare UndefinedBinding(std.types.*) when several threads import std modules cold) listed. "
         "Reach is the schedules the stressor produced; evidence lists the distinct schedule signatures seen.",
    technique="runtime monitoring: differential (parallel vs solo) with effect-log exactly-once monitor, stress and injected delays; ThreadSanitizer and AddressSanitizer builds",
)

CLAIMED["C15"] = dict(
    category="exploration",
    text="Edit histories (4-14 steps) over graphs of up to 6 in-memory modules - add (registered only or loaded), change "
         "a value, change a value's type or an exported type definition, add/remove an import edge, introduce/remove a "
         "cycle, import a module that does not exist yet and add it later, repair importers - interleaved with "
         "evaluations, are applied to one long-lived VM; every evaluation and load is repeated on a fresh VM given only "
         "the latest sources and must agree (value, type, error class and first line); verif.fx.loaded at the top of "
         "every module body counts body runs (more than one between two source changes is a violation); a reported "
         "cycle must name only modules that lie on a cycle of the latest graph; CPU-budget and blocked-forever "
         "monitors catch hangs. Plus every history of length <= 4 (quick) / 5 (thorough) over an 11-letter alphabet on "
         "a fixed 3-module graph.",
    design_ref="DESIGN.md §4 C15",
    note="When both VMs fail but with different first errors, the long-lived VM's error is accepted only if it can be "
         "checked true of the latest sources here (a valid cycle, a module that really is missing). F45 (module added "
         "after a failed import stays 'not found') found by this check and repaired.",
    technique="runtime monitoring: differential history replay (long-lived VM vs fresh VM as executable model) with an effect-log monitor for module body runs",
)

CLAIMED["C17"] = dict(
    category="exploration",
    text="Operation histories over send/recv/store/load/force/spawn/resume/yield (2 channels, 2 references, 5 lazies "
         "of which 2 fail and 1 forces itself, up to 3 green threads, nested resumes) are compiled to gluon IO programs in which every "
         "operation logs what it observed; an executable sequential model (FIFO queues, cells, run-once lazies, "
         "coroutine program counters) predicts the log and the order of lazy computation runs exactly; a blocked-forever "
         "monitor (no CPU consumed for 8 s) turns hangs into violations. Exhaustive over a 10-letter alphabet up to "
         "length 5 (quick) / 6 (thorough), plus longer random histories.",
    design_ref="DESIGN.md §4 C17",
    note="The property text asks for exhaustive length 8; 10^8 programs are out of reach at ~1.5 ms each, so length 6 is "
         "exhaustive and longer histories are sampled. A self-dependent lazy is built through the harness's extern stash (plain source cannot express one). "
         "F11 (failing lazy stays blackholed, other threads wait forever) found by this check and repaired.",
    technique="runtime monitoring: history recording at the program boundary checked against an executable sequential model; blocked-forever monitor",
)

CLAIMED["C19"] = dict(
    category="exploration",
    text="Gluon driver functions (harness/src/props/c19_driver.glu, loaded once per VM) are called from Rust with "
         "generated inputs and every answer is compared with the Rust model: std.map under sequences of 0-200 inserts "
         "and finds over colliding String and Int keys vs BTreeMap (find answers, ordered keys, values); list.sort, "
         "list.filter, list and array append, folds from both ends, slice, index, functor map, Ord and Eq on arrays vs "
         "Vec / slice definitions; fifteen std.string functions vs str on multi-byte strings with indices on char "
         "boundaries; JSON: a record type with derived Serialize / Deserialize is deserialised and serialised again and "
         "must parse (serde_json) to the original value; derived Eq vs structural equality of the parsed values and "
         "derived Show renders equal values equally and different values differently.",
    design_ref="DESIGN.md §4 C19",
    note="Random algebraic type declarations with derives are not generated (two fixed record types with nested "
         "records, options and arrays are used); Show is judged by injectivity, not against an expected text.",
    technique="runtime monitoring: differential against executable reference models (Rust std, serde_json) over generated operation sequences and inputs",
)

CLAIMED["C20"] = dict(
    category="exploration",
    text="For generated programs (complete, truncated, one token deleted) the typed or salvaged AST is obtained the way a "
         "language server gets it and find / suggest / signature_help / get_metadata are called at every byte offset "
         "(all_symbols once); oracles: no panic; on cleanly typed programs the type `find` reports at every identifier use "
         "equals the type stored in that AST node; sampled suggestions, substituted at the cursor, must not be reported "
         "as undefined by the real checker.",
    design_ref="DESIGN.md §4 C20",
    note="Type agreement is judged on cleanly typed ASTs only (recovered nodes overlap in salvaged ones: observed, not "
         "judged). Three panics repaired (F40).",
    technique="runtime monitoring: exhaustive-offset query sweep with panic monitor, AST-node type oracle and checker-backed scope oracle",
)

NOT_YET = "check not built yet in this session (work in progress; see DESIGN.md for the planned monitor)"

def main():
    props = [json.loads(l) for l in open("/verif/properties.jsonl")]
    checks, na = [], []
    for p in props:
        pid = p["id"]
        if pid in CLAIMED:
            c = CLAIMED[pid]
            checks.append({
                "property_id": pid,
                "quick_cmd": f"./check {pid} quick",
                "thorough_cmd": f"./check {pid} thorough",
                "evidence_file": f"/verif/evidence/{pid}.json",
                "replay_cmd_template": "./check replay {path}",
                "engine": "gv",
                "level_claimed": {"category": c["category"], "text": c["text"], "design_ref": c["design_ref"]},
                "level_note": c["note"],
                "technique": c["technique"],
            })
        else:
            na.append({"property_id": pid, "reason": NOT_YET})
    manifest = {
        "version": 1,
        "setup_cmd": "./check setup",
        "hooks": {
            "guard": "cargo feature `verif_hooks` on gluon_vm (re-exported as gluon/verif_hooks), off by default",
            "enable": "the harness crate /verif/harness depends on /repo by path with features = [\"verif_hooks\"]; every check rebuilds it from /repo's working tree",
            "baseline_off_cmd": "cd /repo && cargo test --workspace --no-fail-fast --offline",
            "source_commits": [l.split()[0] for l in HOOK_COMMITS],
            "add_only": True,
        },
        "engines": [{
            "name": "gv", "path": "/verif/harness",
            "serves_properties": sorted(CLAIMED.keys()),
            "kind_free_text": "Rust harness: supervisor + child-process workers (debug / ASan / TSan / release builds) running generated workloads against the real gluon crates with oracles and hook-based monitors",
        }],
        "checks": checks,
        "not_applicable": na,
        "notes": "Exit 0 = held on everything explored (KNOWN-FINDING lines for listed defects), 1 = VIOLATION, 2 = harness error / observed too little (inconclusive; never reported as held).",
    }
    json.dump(manifest, open("/verif/MANIFEST.json", "w"), indent=1)
    print("claimed:", sorted(CLAIMED.keys()))

if __name__ == "__main__":
    main()
