//! Type-directed walk: does a VM value have the shape of the type the checker reported?
use gluon::base::resolve;
use gluon::base::types::{self, ArcType, BuiltinType, NullInterner, Type};
use gluon::vm::api::ValueRef;
use gluon::Thread;

pub struct ShapeStats {
    pub nodes: u64,
    pub opaque: u64,
}

pub fn check(vm: &Thread, ty: &ArcType, v: ValueRef<'_>, stats: &mut ShapeStats) -> Result<(), String> {
    let env = vm.get_env();
    walk(&env, ty, v, 0, stats)
}

fn describe(v: &ValueRef<'_>) -> String {
    match v {
        ValueRef::Byte(b) => format!("Byte {}", b),
        ValueRef::Int(i) => format!("Int {}", i),
        ValueRef::Float(f) => format!("Float {}", f),
        ValueRef::String(s) => format!("String {:?}", s.chars().take(20).collect::<String>()),
        ValueRef::Data(d) => format!("Data(tag {}, {} fields)", d.tag(), d.len()),
        ValueRef::Array(a) => format!("Array(len {})", a.len()),
        ValueRef::Userdata(_) => "Userdata".into(),
        ValueRef::Thread(_) => "Thread".into(),
        ValueRef::Closure(_) => "Closure".into(),
        ValueRef::Internal => "Internal".into(),
    }
}

fn walk(env: &gluon::vm::vm::VmEnvInstance<'_>, ty: &ArcType, v: ValueRef<'_>, depth: usize, stats: &mut ShapeStats) -> Result<(), String> {
    stats.nodes += 1;
    if depth > 60 {
        return Ok(());
    }
    let ty = types::remove_forall(ty);
    let resolved = resolve::remove_aliases_cow(env, &mut NullInterner, ty);
    let ty: &ArcType = types::remove_forall(&resolved);
    let desc = describe(&v);
    let bad = |what: &str| Err(format!("type `{}` expects {} but the value is {}", ty, what, desc));
    match &**ty {
        Type::Builtin(BuiltinType::Int) | Type::Builtin(BuiltinType::Char) => match v {
            ValueRef::Int(_) => Ok(()),
            _ => bad("an Int"),
        },
        Type::Builtin(BuiltinType::Byte) => match v {
            ValueRef::Byte(_) => Ok(()),
            _ => bad("a Byte"),
        },
        Type::Builtin(BuiltinType::Float) => match v {
            ValueRef::Float(_) => Ok(()),
            _ => bad("a Float"),
        },
        Type::Builtin(BuiltinType::String) => match v {
            ValueRef::String(_) => Ok(()),
            _ => bad("a String"),
        },
        Type::Function(..) => match v {
            ValueRef::Closure(_) | ValueRef::Internal => Ok(()),
            _ => bad("a function"),
        },
        Type::App(f, args) => {
            if let Type::Builtin(BuiltinType::Array) = &**f {
                if let (Some(elem), ValueRef::Array(a)) = (args.first(), &v) {
                    for x in a.iter() {
                        walk(env, elem, x.as_ref(), depth + 1, stats)?;
                    }
                    return Ok(());
                }
                return bad("an Array");
            }
            stats.opaque += 1;
            Ok(())
        }
        Type::Record(row) => {
            let fields: Vec<ArcType> = types::row_iter(row).map(|f| f.typ.clone()).collect();
            match v {
                ValueRef::Data(d) => {
                    if d.len() != fields.len() {
                        return bad(&format!("a record with {} fields", fields.len()));
                    }
                    if d.tag() != 0 {
                        return bad("a record (tag 0)");
                    }
                    for (i, ft) in fields.iter().enumerate() {
                        walk(env, ft, d.get(i).unwrap(), depth + 1, stats)?;
                    }
                    Ok(())
                }
                _ => bad("a record"),
            }
        }
        Type::Variant(row) => {
            let ctors: Vec<ArcType> = types::row_iter(row).map(|f| f.typ.clone()).collect();
            if ctors.is_empty() {
                stats.opaque += 1;
                return Ok(());
            }
            match v {
                ValueRef::Data(d) => {
                    let tag = d.tag() as usize;
                    if tag >= ctors.len() {
                        return bad(&format!("a variant with tag < {}", ctors.len()));
                    }
                    let args: Vec<ArcType> = types::ctor_args(&ctors[tag]).cloned().collect();
                    if d.len() != args.len() {
                        return bad(&format!("constructor #{} with {} arguments", tag, args.len()));
                    }
                    for (i, at) in args.iter().enumerate() {
                        walk(env, at, d.get(i).unwrap(), depth + 1, stats)?;
                    }
                    Ok(())
                }
                _ => bad("a variant"),
            }
        }
        _ => {
            stats.opaque += 1;
            Ok(())
        }
    }
}
