//! Small deterministic PRNG (splitmix64 seeding + xoshiro256**). No external crates.
#[derive(Clone, Debug)]
pub struct Rng {
    s: [u64; 4],
}

pub fn splitmix(x: &mut u64) -> u64 {
    *x = x.wrapping_add(0x9E3779B97F4A7C15);
    let mut z = *x;
    z = (z ^ (z >> 30)).wrapping_mul(0xBF58476D1CE4E5B9);
    z = (z ^ (z >> 27)).wrapping_mul(0x94D049BB133111EB);
    z ^ (z >> 31)
}

pub fn mix(a: u64, b: u64) -> u64 {
    let mut x = a ^ b.rotate_left(32) ^ 0xD6E8FEB86659FD93;
    splitmix(&mut x)
}

impl Rng {
    pub fn new(seed: u64) -> Rng {
        let mut x = seed;
        Rng {
            s: [splitmix(&mut x), splitmix(&mut x), splitmix(&mut x), splitmix(&mut x)],
        }
    }
    /// Independent stream for (seed, shard, index)
    pub fn for_case(seed: u64, prop: &str, idx: u64) -> Rng {
        let mut h = seed;
        for b in prop.bytes() {
            h = mix(h, b as u64);
        }
        Rng::new(mix(h, idx))
    }
    pub fn next(&mut self) -> u64 {
        let r = self.s[1].wrapping_mul(5).rotate_left(7).wrapping_mul(9);
        let t = self.s[1] << 17;
        self.s[2] ^= self.s[0];
        self.s[3] ^= self.s[1];
        self.s[1] ^= self.s[2];
        self.s[0] ^= self.s[3];
        self.s[2] ^= t;
        self.s[3] = self.s[3].rotate_left(45);
        r
    }
    /// uniform in 0..n (n > 0)
    pub fn below(&mut self, n: usize) -> usize {
        (self.next() % (n as u64)) as usize
    }
    pub fn range(&mut self, lo: i64, hi: i64) -> i64 {
        lo + (self.next() % ((hi - lo + 1) as u64)) as i64
    }
    pub fn chance(&mut self, num: u32, den: u32) -> bool {
        (self.next() % den as u64) < num as u64
    }
    pub fn pick<'a, T>(&mut self, xs: &'a [T]) -> &'a T {
        &xs[self.below(xs.len())]
    }
    pub fn weighted(&mut self, ws: &[u32]) -> usize {
        let total: u32 = ws.iter().sum();
        let mut r = (self.next() % total as u64) as u32;
        for (i, w) in ws.iter().enumerate() {
            if r < *w {
                return i;
            }
            r -= *w;
        }
        ws.len() - 1
    }
    pub fn shuffle<T>(&mut self, xs: &mut [T]) {
        for i in (1..xs.len()).rev() {
            let j = self.below(i + 1);
            xs.swap(i, j);
        }
    }
}

pub fn hash_str(s: &str) -> u64 {
    let mut h = 0xcbf29ce484222325u64;
    for b in s.bytes() {
        h ^= b as u64;
        h = h.wrapping_mul(0x100000001b3);
    }
    h
}
