//! Helpers around the real VM: settings, running programs, untyped canonical rendering of values,
//! error classification.
use gluon::vm::api::{Hole, OpaqueValue, ValueRef};
use gluon::vm::thread::{RootedThread, Thread, ThreadInternal};
use gluon::{new_vm, ThreadExt};
use serde_json::{json, Value};

#[derive(Clone, Copy, Debug, PartialEq, Eq)]
pub struct Settings {
    pub prelude: bool,
    pub optimize: bool,
    pub debug_info: bool,
    pub run_io: bool,
    pub full_metadata: bool,
}

impl Settings {
    pub const PLAIN: Settings = Settings { prelude: false, optimize: true, debug_info: true, run_io: false, full_metadata: false };
    pub fn from_bits(b: u32) -> Settings {
        Settings {
            prelude: b & 1 != 0,
            optimize: b & 2 != 0,
            debug_info: b & 4 != 0,
            run_io: b & 8 != 0,
            full_metadata: b & 16 != 0,
        }
    }
    pub fn bits(&self) -> u32 {
        (self.prelude as u32) | (self.optimize as u32) << 1 | (self.debug_info as u32) << 2 | (self.run_io as u32) << 3 | (self.full_metadata as u32) << 4
    }
    pub fn apply(&self, vm: &Thread) {
        vm.get_database_mut()
            .implicit_prelude(self.prelude)
            .optimize(self.optimize)
            .emit_debug_info(self.debug_info)
            .run_io(self.run_io)
            .full_metadata(self.full_metadata);
    }
    pub fn to_json(&self) -> Value {
        json!({"prelude": self.prelude, "optimize": self.optimize, "debug_info": self.debug_info, "run_io": self.run_io, "full_metadata": self.full_metadata})
    }
}

pub fn vm_with(s: Settings) -> RootedThread {
    let vm = new_vm();
    s.apply(&vm);
    vm
}

/// Untyped canonical rendering (never uses Debug, which prints addresses)
pub fn render(v: ValueRef<'_>, out: &mut String, depth: usize) {
    if depth > 200 {
        out.push_str("<deep>");
        return;
    }
    match v {
        ValueRef::Byte(b) => out.push_str(&format!("{}b", b)),
        ValueRef::Int(i) => out.push_str(&format!("{}", i)),
        ValueRef::Float(f) => out.push_str(&format!("f{:016x}", f.to_bits())),
        ValueRef::String(s) => out.push_str(&format!("{:?}", s)),
        ValueRef::Data(d) => {
            out.push_str(&format!("<{}|", d.tag()));
            for i in 0..d.len() {
                if i > 0 {
                    out.push(',');
                }
                render(d.get(i).unwrap(), out, depth + 1);
            }
            out.push('>');
        }
        ValueRef::Array(a) => {
            out.push('[');
            for (i, x) in a.iter().enumerate() {
                if i > 0 {
                    out.push(',');
                }
                render(x.as_ref(), out, depth + 1);
            }
            out.push(']');
        }
        ValueRef::Userdata(_) => out.push_str("<userdata>"),
        ValueRef::Thread(_) => out.push_str("<thread>"),
        ValueRef::Closure(_) => out.push_str("<fn>"),
        ValueRef::Internal => out.push_str("<fn>"),
    }
}

#[derive(Clone, Debug, PartialEq, Eq)]
pub enum Outcome {
    /// canonical rendering + type text
    Value(String, String),
    /// (class, first line of message)
    Error(String, String),
}

impl Outcome {
    pub fn to_json(&self) -> Value {
        match self {
            Outcome::Value(v, t) => json!({"value": v, "type": t}),
            Outcome::Error(c, m) => json!({"error_class": c, "message": m}),
        }
    }
    pub fn short(&self) -> String {
        match self {
            Outcome::Value(v, _) => format!("value {}", v),
            Outcome::Error(c, m) => format!("error[{}] {}", c, m),
        }
    }
}

/// Classifies a gluon error into the failure classes of the reference semantics
pub fn classify_error(e: &gluon::Error) -> (String, String) {
    let text = e.to_string();
    classify_error_text(&text, e)
}

fn classify_error_text(text: &str, e: &gluon::Error) -> (String, String) {
    let first = text.lines().next().unwrap_or("").to_string();
    let class = match e {
        gluon::Error::Parse(_) => "parse",
        gluon::Error::Typecheck(_) => "typecheck",
        gluon::Error::Macro(_) => "macro",
        gluon::Error::VM(vm) => return (classify_vm_error(vm, text), first),
        gluon::Error::Multiple(_) => "multiple",
        gluon::Error::IO(_) => "io",
        gluon::Error::Other(_) => "other",
        _ => "other",
    };
    (class.to_string(), first)
}

pub fn classify_vm_error(e: &gluon::vm::Error, text: &str) -> String {
    use gluon::vm::Error as E;
    match e {
        E::OutOfMemory { .. } => "out-of-memory".into(),
        E::StackOverflow(_) => "stack-overflow".into(),
        E::Interrupted => "interrupted".into(),
        E::Dead => "dead".into(),
        E::Panic(m, _) => classify_panic_text(m),
        E::Message(m) => {
            let _ = text;
            classify_message_text(m)
        }
        _ => format!("vm-other"),
    }
}

pub fn classify_panic_text(m: &str) -> String {
    if m.starts_with("ICE") || m.contains("ICE:") || m.contains("Please report an issue at https://github.com/gluon-lang/gluon/issues") {
        // ice!() texts, including the ones of Getable when a primitive is handed a value of the
        // wrong shape and the panic is turned into the primitive's error
        "ice".into()
    } else if m.contains("Arithmetic overflow") || m.contains("overflow") && m.contains("rithmetic") {
        "arith".into()
    } else if m.contains("ivision by zero") || m.contains("divide by zero") {
        "arith".into()
    } else if m.contains("Unmatched pattern") {
        "match".into()
    } else if m.contains("<<loop>>") {
        "loop".into()
    } else {
        "explicit".into()
    }
}

pub const SHAPE_COMPLAINTS: &[&str] = &[
    "Cannot call",
    "GetOffset on",
    "GetField on",
    "Op TestTag called on non data type",
    "Op Split called on non data type",
    "Unexpected error calling function",
    "ICE",
    "Expected excess",
    "not a closure",
    "Stack push out of bounds",
    // a primitive was handed a value of another shape than its type (ice! in Getable)
    "ValueRef is not",
    "expected ValueRef to be",
    "Value is not an array",
    "Please report an issue at https://github.com/gluon-lang/gluon/issues",
];

pub fn is_shape_complaint(m: &str) -> Option<&'static str> {
    SHAPE_COMPLAINTS.iter().find(|s| m.contains(**s)).copied()
}

pub fn classify_message_text(m: &str) -> String {
    if is_shape_complaint(m).is_some() {
        "shape".into()
    } else {
        if m.contains("Arithmetic overflow") { "arith".into() } else { "vm-message".into() }
    }
}

pub fn run_program(vm: &Thread, name: &str, src: &str) -> Outcome {
    match vm.run_expr::<OpaqueValue<&Thread, Hole>>(name, src) {
        Ok((v, t)) => {
            let mut s = String::new();
            render(v.get_ref(), &mut s, 0);
            Outcome::Value(s, t.to_string())
        }
        Err(e) => {
            let (c, m) = classify_error(&e);
            Outcome::Error(c, m)
        }
    }
}

/// message text of an `error "..."` failure: first line after "<msg>" up to the stack trace
pub fn explicit_error_message(full: &str) -> String {
    full.lines().next().unwrap_or("").to_string()
}

pub fn stack_len(vm: &Thread) -> (usize, usize) {
    let ctx = vm.context();
    let _ = &ctx;
    (0, 0)
}

pub const BUDGET_MSG: &str = "verif: call budget exceeded";

/// Installs the VM's own debug hook as a deterministic call-step budget
pub fn set_call_budget(vm: &Thread, max_calls: u64) {
    use gluon::vm::thread::HookFlags;
    use std::sync::atomic::{AtomicU64, Ordering};
    use std::task::Poll;
    let ctr = AtomicU64::new(0);
    let mut ctx = vm.context();
    ctx.set_hook(Some(Box::new(move |_, _| {
        if ctr.fetch_add(1, Ordering::Relaxed) >= max_calls {
            Poll::Ready(Err(gluon::vm::Error::Message(BUDGET_MSG.to_string())))
        } else {
            Poll::Ready(Ok(()))
        }
    })));
    ctx.set_hook_mask(HookFlags::CALL_FLAG);
}

pub fn clear_call_budget(vm: &Thread) {
    use gluon::vm::thread::HookFlags;
    let mut ctx = vm.context();
    ctx.set_hook(None);
    ctx.set_hook_mask(HookFlags::empty());
}

pub fn run_program_budget(vm: &Thread, name: &str, src: &str, max_calls: u64) -> Outcome {
    set_call_budget(vm, max_calls);
    let o = run_program(vm, name, src);
    clear_call_budget(vm);
    match o {
        Outcome::Error(_, m) if m.contains(BUDGET_MSG) => Outcome::Error("budget".into(), m),
        o => o,
    }
}
