//! Child-process side: generate, execute, judge; speak the line protocol on stdout.
use crate::prop::*;
use crate::rng::Rng;
use serde_json::{json, Value};
use std::io::Write;
use std::panic::{catch_unwind, AssertUnwindSafe};
use std::sync::Mutex;

pub const MAGIC: &str = "\u{1}GV ";

pub fn emit(kind: &str, idx: u64, v: &Value) {
    let out = std::io::stdout();
    let mut out = out.lock();
    let _ = write!(out, "\n{}{} {} {}\n", MAGIC, kind, idx, v);
    let _ = out.flush();
}

static LAST_PANIC: Mutex<Option<(String, String)>> = Mutex::new(None);
static EXTRA_KEY: Mutex<Vec<(String, Value)>> = Mutex::new(Vec::new());

/// Adds members to the signature of whatever happens to the case in flight (also when the
/// process dies: the supervisor receives them through a `K` line)
pub fn note_key(v: &Value) {
    if let Some(o) = v.as_object() {
        let mut g = EXTRA_KEY.lock().unwrap_or_else(|e| e.into_inner());
        for (k, x) in o {
            g.push((k.clone(), x.clone()));
        }
    }
    emit("K", 0, v);
}

pub fn clear_key() {
    EXTRA_KEY.lock().unwrap_or_else(|e| e.into_inner()).clear();
}

pub fn install_panic_hook() {
    std::panic::set_hook(Box::new(|info| {
        let loc = info
            .location()
            .map(|l| format!("{}:{}", l.file(), l.line()))
            .unwrap_or_default();
        let msg = if let Some(s) = info.payload().downcast_ref::<&str>() {
            s.to_string()
        } else if let Some(s) = info.payload().downcast_ref::<String>() {
            s.clone()
        } else {
            "<non-string panic>".to_string()
        };
        eprintln!("PANIC at {}: {}", loc, msg.lines().next().unwrap_or(""));
        // keep the first panic of a case (later ones are usually poisoned-lock follow-ups)
        let mut g = LAST_PANIC.lock().unwrap_or_else(|e| e.into_inner());
        if g.is_none() {
            *g = Some((loc, msg));
        }
    }));
}

pub fn take_panic() -> Option<(String, String)> {
    LAST_PANIC.lock().unwrap_or_else(|e| e.into_inner()).take()
}

/// Runs `f`, turning a Rust panic into Err((location, message))
pub fn guarded<T>(f: impl FnOnce() -> T) -> Result<T, (String, String)> {
    let _ = take_panic();
    match catch_unwind(AssertUnwindSafe(f)) {
        Ok(v) => Ok(v),
        Err(_) => Err(take_panic().unwrap_or_default()),
    }
}

pub fn strip_repo(loc: &str) -> String {
    loc.trim_start_matches("/repo/").to_string()
}

/// Process CPU time in seconds
pub fn cpu_time() -> f64 {
    let mut ts = libc::timespec { tv_sec: 0, tv_nsec: 0 };
    unsafe {
        libc::clock_gettime(libc::CLOCK_PROCESS_CPUTIME_ID, &mut ts);
    }
    ts.tv_sec as f64 + ts.tv_nsec as f64 * 1e-9
}

static CURRENT_IDX: std::sync::atomic::AtomicU64 = std::sync::atomic::AtomicU64::new(0);
static CASE_START_CPU_MS: std::sync::atomic::AtomicU64 = std::sync::atomic::AtomicU64::new(u64::MAX);
static CPU_BUDGET_MS: std::sync::atomic::AtomicU64 = std::sync::atomic::AtomicU64::new(0);
static WATCHDOG_STARTED: std::sync::atomic::AtomicBool = std::sync::atomic::AtomicBool::new(false);

/// CPU-time budget per case (process CPU seconds). When a case exceeds it the watchdog reports
/// the case as a violation `cpu-budget-exceeded` itself and ends the process: the verdict rests
/// on CPU time consumed by the code under test, never on wall-clock time.
pub fn set_cpu_budget(secs: f64) {
    use std::sync::atomic::Ordering;
    CPU_BUDGET_MS.store((secs * 1000.0) as u64, Ordering::SeqCst);
    if !WATCHDOG_STARTED.swap(true, Ordering::SeqCst) {
        std::thread::spawn(|| loop {
            std::thread::sleep(std::time::Duration::from_millis(250));
            let start = CASE_START_CPU_MS.load(Ordering::SeqCst);
            let budget = CPU_BUDGET_MS.load(Ordering::SeqCst);
            if start == u64::MAX || budget == 0 {
                continue;
            }
            let now = (cpu_time() * 1000.0) as u64;
            if now.saturating_sub(start) > budget {
                let idx = CURRENT_IDX.load(Ordering::SeqCst);
                let mut r = CaseResult::violation(
                    idx,
                    format!("the case consumed more than {} s of CPU time without returning", budget / 1000),
                    merge_key(json!({"kind": "cpu-budget-exceeded"}), &Value::Null),
                );
                r.stat("cpu_budget_exceeded", 1);
                let mut j = r.to_json();
                j["exit"] = json!(true);
                emit("E", idx, &j);
                unsafe { libc::_exit(0) };
            }
        });
    }
}

/// Blocked-forever detection: a case that has been running for `secs` seconds of wall-clock time
/// during which the whole process consumed (almost) no CPU time is not slow, it is waiting for
/// something that nothing in the process is going to deliver. The verdict rests on the absence
/// of CPU consumption (a loaded machine slows a runnable thread down, it does not stop it for
/// this long), the wall-clock window only says how long the absence was observed.
pub fn set_idle_hang(secs: f64) {
    use std::sync::atomic::Ordering;
    std::thread::spawn(move || {
        let mut window: std::collections::VecDeque<(std::time::Instant, u64, u64)> = Default::default();
        loop {
            std::thread::sleep(std::time::Duration::from_millis(250));
            let start = CASE_START_CPU_MS.load(Ordering::SeqCst);
            let idx = CURRENT_IDX.load(Ordering::SeqCst);
            if start == u64::MAX {
                window.clear();
                continue;
            }
            let now = std::time::Instant::now();
            let cpu = (cpu_time() * 1000.0) as u64;
            if window.back().map_or(false, |w| w.2 != idx) {
                window.clear();
            }
            window.push_back((now, cpu, idx));
            while window.len() > 2 && now.duration_since(window[1].0).as_secs_f64() >= secs {
                window.pop_front();
            }
            let first = window[0];
            if now.duration_since(first.0).as_secs_f64() >= secs && cpu.saturating_sub(first.1) < 40 {
                let mut r = CaseResult::violation(
                    idx,
                    format!("the case has been blocked for {} s while the process used {} ms of CPU: it waits for something that is never delivered", secs, cpu - first.1),
                    merge_key(json!({"kind": "blocked-forever"}), &Value::Null),
                );
                r.stat("blocked_forever", 1);
                let mut j = r.to_json();
                j["exit"] = json!(true);
                emit("E", idx, &j);
                unsafe { libc::_exit(0) };
            }
        }
    });
}

pub fn case_started(idx: u64) {
    use std::sync::atomic::Ordering;
    eprintln!("GV-CASE-START {}", idx);
    CURRENT_IDX.store(idx, Ordering::SeqCst);
    CASE_START_CPU_MS.store((cpu_time() * 1000.0) as u64, Ordering::SeqCst);
}

pub fn case_finished() {
    CASE_START_CPU_MS.store(u64::MAX, std::sync::atomic::Ordering::SeqCst);
}

pub fn worker_main(prop: &dyn Prop, ctx: WorkerCtx, shard: u64, nshards: u64, from: u64, cases: u64) {
    install_panic_hook();
    let seed = ctx.seed;
    let stream = format!("{}/{}", prop.id(), ctx.phase);
    let mut w = prop.worker(&ctx);
    let mut idx = from;
    while idx < cases {
        if idx % nshards != shard {
            idx += 1;
            continue;
        }
        let mut rng = Rng::for_case(seed, &stream, idx);
        let case = match w.gen(&mut rng, idx) {
            Some(c) => c,
            None => {
                idx += 1;
                continue;
            }
        };
        emit("B", idx, &case);
        clear_key();
        let _ = take_panic();
        case_started(idx);
        let res = catch_unwind(AssertUnwindSafe(|| w.run(&case)));
        case_finished();
        match res {
            Ok(r) => emit("E", idx, &r.to_json()),
            Err(_) => {
                let (loc, msg) = take_panic().unwrap_or_default();
                let harness = loc.contains("/verif/") || loc.starts_with("src/");
                let mut r = if harness {
                    CaseResult::inconclusive(0, format!("harness panic at {}: {}", loc, msg))
                } else {
                    CaseResult::violation(
                        crate::rng::hash_str(&case.to_string()),
                        format!("host panic at {}: {}", loc, msg.lines().next().unwrap_or("")),
                        merge_key(json!({"kind": "host-panic", "location": strip_repo(&loc)}), &case),
                    )
                };
                r.stat("host_panics", 1);
                let mut j = r.to_json();
                j["exit"] = json!(true);
                emit("E", idx, &j);
                // state may be poisoned: let the supervisor restart us after this case
                std::process::exit(0);
            }
        }
        idx += 1;
    }
    let fin = w.finish();
    emit("D", 0, &Value::Object(fin));
}

pub fn merge_key(mut sig: Value, case: &Value) -> Value {
    if let Some(o) = sig.as_object_mut() {
        if let Some(k) = case.get("key").and_then(|k| k.as_object()) {
            for (a, b) in k {
                o.insert(a.clone(), b.clone());
            }
        }
        for (a, b) in EXTRA_KEY.lock().unwrap_or_else(|e| e.into_inner()).iter() {
            o.insert(a.clone(), b.clone());
        }
    }
    sig
}
