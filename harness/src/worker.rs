//! Child-process side: generate, execute, judge; speak the line protocol on stdout.
use crate::prop::*;
use crate::rng::Rng;
use serde_json::{json, Value};
use std::io::Write;
use std::panic::{catch_unwind, AssertUnwindSafe};
use std::sync::Mutex;

pub const MAGIC: &str = "\u{1}GV ";

pub fn emit(kind: &str, idx: u64, v: &Value) {
    let out = std::io::stdout();
    let mut out = out.lock();
    let _ = write!(out, "\n{}{} {} {}\n", MAGIC, kind, idx, v);
    let _ = out.flush();
}

static LAST_PANIC: Mutex<Option<(String, String)>> = Mutex::new(None);
static EXTRA_KEY: Mutex<Vec<(String, Value)>> = Mutex::new(Vec::new());

/// Adds members to the signature of whatever happens to the case in flight (also when the
/// process dies: the supervisor receives them through a `K` line)
pub fn note_key(v: &Value) {
    if let Some(o) = v.as_object() {
        let mut g = EXTRA_KEY.lock().unwrap_or_else(|e| e.into_inner());
        for (k, x) in o {
            g.push((k.clone(), x.clone()));
        }
    }
    emit("K", 0, v);
}

pub fn clear_key() {
    EXTRA_KEY.lock().unwrap_or_else(|e| e.into_inner()).clear();
}

pub fn install_panic_hook() {
    std::panic::set_hook(Box::new(|info| {
        let loc = info
            .location()
            .map(|l| format!("{}:{}", l.file(), l.line()))
            .unwrap_or_default();
        let msg = if let Some(s) = info.payload().downcast_ref::<&str>() {
            s.to_string()
        } else if let Some(s) = info.payload().downcast_ref::<String>() {
            s.clone()
        } else {
            "<non-string panic>".to_string()
        };
        eprintln!("PANIC at {}: {}", loc, msg.lines().next().unwrap_or(""));
        // keep the first panic of a case (later ones are usually poisoned-lock follow-ups)
        let mut g = LAST_PANIC.lock().unwrap_or_else(|e| e.into_inner());
        if g.is_none() {
            *g = Some((loc, msg));
        }
    }));
}

pub fn take_panic() -> Option<(String, String)> {
    LAST_PANIC.lock().unwrap_or_else(|e| e.into_inner()).take()
}

/// Runs `f`, turning a Rust panic into Err((location, message))
pub fn guarded<T>(f: impl FnOnce() -> T) -> Result<T, (String, String)> {
    let _ = take_panic();
    match catch_unwind(AssertUnwindSafe(f)) {
        Ok(v) => Ok(v),
        Err(_) => Err(take_panic().unwrap_or_default()),
    }
}

pub fn strip_repo(loc: &str) -> String {
    loc.trim_start_matches("/repo/").to_string()
}

/// Process CPU time in seconds
pub fn cpu_time() -> f64 {
    let mut ts = libc::timespec { tv_sec: 0, tv_nsec: 0 };
    unsafe {
        libc::clock_gettime(libc::CLOCK_PROCESS_CPUTIME_ID, &mut ts);
    }
    ts.tv_sec as f64 + ts.tv_nsec as f64 * 1e-9
}

pub fn worker_main(prop: &dyn Prop, ctx: WorkerCtx, shard: u64, nshards: u64, from: u64, cases: u64) {
    install_panic_hook();
    let seed = ctx.seed;
    let stream = format!("{}/{}", prop.id(), ctx.phase);
    let mut w = prop.worker(&ctx);
    let mut idx = from;
    while idx < cases {
        if idx % nshards != shard {
            idx += 1;
            continue;
        }
        let mut rng = Rng::for_case(seed, &stream, idx);
        let case = match w.gen(&mut rng, idx) {
            Some(c) => c,
            None => {
                idx += 1;
                continue;
            }
        };
        emit("B", idx, &case);
        clear_key();
        let _ = take_panic();
        let res = catch_unwind(AssertUnwindSafe(|| w.run(&case)));
        match res {
            Ok(r) => emit("E", idx, &r.to_json()),
            Err(_) => {
                let (loc, msg) = take_panic().unwrap_or_default();
                let harness = loc.contains("/verif/") || loc.starts_with("src/");
                let mut r = if harness {
                    CaseResult::inconclusive(0, format!("harness panic at {}: {}", loc, msg))
                } else {
                    CaseResult::violation(
                        crate::rng::hash_str(&case.to_string()),
                        format!("host panic at {}: {}", loc, msg.lines().next().unwrap_or("")),
                        merge_key(json!({"kind": "host-panic", "location": strip_repo(&loc)}), &case),
                    )
                };
                r.stat("host_panics", 1);
                let mut j = r.to_json();
                j["exit"] = json!(true);
                emit("E", idx, &j);
                // state may be poisoned: let the supervisor restart us after this case
                std::process::exit(0);
            }
        }
        idx += 1;
    }
    let fin = w.finish();
    emit("D", 0, &Value::Object(fin));
}

pub fn merge_key(mut sig: Value, case: &Value) -> Value {
    if let Some(o) = sig.as_object_mut() {
        if let Some(k) = case.get("key").and_then(|k| k.as_object()) {
            for (a, b) in k {
                o.insert(a.clone(), b.clone());
            }
        }
        for (a, b) in EXTRA_KEY.lock().unwrap_or_else(|e| e.into_inner()).iter() {
            o.insert(a.clone(), b.clone());
        }
    }
    sig
}
