//! Effect log: extern module `verif.fx` whose functions append to a harness-owned log.
use gluon::import::add_extern_module;
use gluon::vm::api::RuntimeResult;
use gluon::vm::{self, ExternModule};
use gluon::{primitive, record, Thread};
use std::sync::Mutex;

pub static LOG: Mutex<Vec<(String, i64)>> = Mutex::new(Vec::new());

fn push(name: &str, v: i64) {
    LOG.lock().unwrap_or_else(|e| e.into_inner()).push((name.to_string(), v));
}

pub fn take_log() -> Vec<(String, i64)> {
    std::mem::take(&mut *LOG.lock().unwrap_or_else(|e| e.into_inner()))
}

fn tick(x: i64) -> i64 {
    push("tick", x);
    x
}
fn tick2(x: i64, y: i64) -> i64 {
    push("tick2", x.wrapping_mul(1000).wrapping_add(y));
    y
}
fn boom(x: i64) -> RuntimeResult<i64, String> {
    push("boom", x);
    RuntimeResult::Panic(format!("boom{}", x))
}
/// module-body evaluation marker: `fx.loaded <id>` is put at the top of generated module bodies
fn loaded(x: i64) -> i64 {
    push("loaded", x);
    x
}

/// One-slot stash: lets a generated program build a value that refers to itself (a lazy whose
/// computation forces that same lazy), which the recursion check rejects in plain source. An
/// embedder's callback registry does the same thing.
static STASH: Mutex<Option<gluon::vm::api::OpaqueValue<gluon::RootedThread, gluon::vm::api::generic::A>>> = Mutex::new(None);

fn stash(v: gluon::vm::api::OpaqueValue<gluon::RootedThread, gluon::vm::api::generic::A>) {
    *STASH.lock().unwrap_or_else(|e| e.into_inner()) = Some(v);
}
fn stashed(_: ()) -> RuntimeResult<gluon::vm::api::OpaqueValue<gluon::RootedThread, gluon::vm::api::generic::A>, String> {
    match STASH.lock().unwrap_or_else(|e| e.into_inner()).clone() {
        Some(v) => RuntimeResult::Return(v),
        None => RuntimeResult::Panic("nothing stashed".to_string()),
    }
}
pub fn clear_stash() {
    *STASH.lock().unwrap_or_else(|e| e.into_inner()) = None;
}

fn load(vm: &Thread) -> vm::Result<ExternModule> {
    ExternModule::new(
        vm,
        record! {
            tick => primitive!(1, "verif.fx.tick", tick),
            tick2 => primitive!(2, "verif.fx.tick2", tick2),
            boom => primitive!(1, "verif.fx.boom", boom),
            loaded => primitive!(1, "verif.fx.loaded", loaded),
            stash => primitive!(1, "verif.fx.stash", stash),
            stashed => primitive!(1, "verif.fx.stashed", stashed),
        },
    )
}

pub fn register(vm: &Thread) {
    add_extern_module(vm, "verif.fx", load);
}
