//! C10 — the formatter preserves meaning and comments and is idempotent.
use crate::lang::fromgluon::convert;
use crate::lang::gen::{gen_program, GenOpts};
use crate::lang::mutate::{scan, Tok, TokKind};
use crate::lang::print::{print_program, Style};
use crate::prop::*;
use crate::rng::{hash_str, Rng};
use crate::vmutil::*;
use gluon::base::symbol::{SymbolModule, Symbols};
use gluon::base::types::TypeCache;
use gluon::{RootedThread, ThreadExt};
use serde_json::{json, Value};

pub struct C10;

impl Prop for C10 {
    fn id(&self) -> &'static str {
        "C10"
    }
    fn rule(&self) -> &'static str {
        "phase gprog: generated programs printed in varied styles (explicit in / layout, redundant parentheses, indentation step, compact / expanded, LF / CRLF) formatted with ThreadExt::format_expr; oracles: format succeeds, parse(fmt(s)) = parse(s) structurally, literal tokens byte-for-byte in order, fmt(fmt(s)) = fmt(s). phase own-line-comments: the same with line / block comments on their own lines between bindings; comment texts must survive in order. phase inline-comments: one uniquely numbered comment inserted into one random token gap. phase repo-files: every .glu file under /repo/std, /repo/examples, /repo/tests as is and under whitespace perturbation (trailing spaces, extra blank lines, CRLF). non-trivial = input has >= 8 tokens; distinct = input text"
    }
    fn assumptions(&self) -> Vec<String> {
        vec![
            "comments in the middle of an expression (inline gaps) are judged as one placement class; own-line placements (before a binding / body / field / alternative, end of file) are judged individually".into(),
            "inputs that do not parse are skipped and counted".into(),
        ]
    }
    fn phases(&self, tier: Tier) -> Vec<Phase> {
        vec![
            Phase::new("gprog", tier.pick(2500, 200000)).min_cases(tier.pick(600, 40000)).timeouts(120, tier.pick(300, 1500)),
            Phase::new("own-line-comments", tier.pick(1500, 100000)).min_cases(tier.pick(300, 20000)).timeouts(120, tier.pick(300, 1500)),
            Phase::new("inline-comments", tier.pick(2000, 150000)).min_cases(tier.pick(400, 25000)).timeouts(120, tier.pick(300, 1500)),
            Phase::new("repo-files", tier.pick(400, 4000)).min_cases(tier.pick(60, 300)).timeouts(300, tier.pick(300, 1500)),
        ]
    }
    fn worker(&self, ctx: &WorkerCtx) -> Box<dyn Worker> {
        Box::new(W { phase: ctx.phase.clone(), vm: None, used: 0, files: None })
    }
}

struct W {
    phase: String,
    vm: Option<RootedThread>,
    used: u32,
    files: Option<Vec<String>>,
}

fn parse_ast(src: &str) -> Result<crate::lang::ast::Expr, String> {
    let mut symbols = Symbols::new();
    let mut module = SymbolModule::new("c10".into(), &mut symbols);
    match gluon::parser::parse_partial_root_expr(&mut module, &TypeCache::default(), src) {
        Ok(root) => convert(root.expr()).map(|c| c.expr),
        Err((_, errs)) => Err(format!("parse error: {}", errs.into_iter().map(|e| e.to_string()).collect::<Vec<_>>().join("; "))),
    }
}

pub struct StrEnv;
impl gluon::base::ast::DisplayEnv for StrEnv {
    type Ident = String;
    fn string<'a>(&'a self, ident: &'a String) -> &'a str {
        ident
    }
}
impl gluon::base::ast::IdentEnv for StrEnv {
    fn from_str(&mut self, s: &str) -> String {
        s.to_string()
    }
}

/// Debug rendering of the real parser's AST with every position erased: two texts have the same
/// fingerprint iff they parse to the same tree ignoring positions
pub fn ast_fingerprint(src: &str) -> Result<String, String> {
    let mut env = StrEnv;
    match gluon::parser::parse_partial_root_expr::<String, _>(&mut env, &TypeCache::default(), src) {
        Ok(root) => {
            let dbg = format!("{:?}", root.expr());
            // erase `ByteIndex(123)` numbers
            let mut out = String::with_capacity(dbg.len());
            let mut rest = dbg.as_str();
            while let Some(p) = rest.find("ByteIndex(") {
                out.push_str(&rest[..p + 10]);
                rest = rest[p + 10..].trim_start_matches(|c: char| c.is_ascii_digit());
            }
            out.push_str(rest);
            // `?` implicit imports get names made from their position: `implicit?123`
            let mut out2 = String::with_capacity(out.len());
            let mut rest = out.as_str();
            while let Some(p) = rest.find("implicit?") {
                out2.push_str(&rest[..p + 9]);
                rest = rest[p + 9..].trim_start_matches(|c: char| c.is_ascii_digit());
            }
            out2.push_str(rest);
            // trailing blanks inside (doc) comment text are not meaning
            while out2.contains(" \\n") {
                out2 = out2.replace(" \\n", "\\n");
            }
            while out2.contains(" \" }") {
                out2 = out2.replace(" \" }", "\" }");
            }
            Ok(out2)
        }
        Err((_, errs)) => Err(format!("parse error: {}", errs.into_iter().map(|e| e.to_string()).collect::<Vec<_>>().join("; "))),
    }
}

fn parses(src: &str) -> bool {
    let mut symbols = Symbols::new();
    let mut module = SymbolModule::new("c10".into(), &mut symbols);
    gluon::parser::parse_partial_root_expr(&mut module, &TypeCache::default(), src).is_ok()
}

fn comments_of(src: &str) -> Vec<String> {
    scan(src).iter().filter(|t| t.kind == TokKind::Comment).map(|t| src[t.start..t.end].trim_end().to_string()).collect()
}

fn literals_of(src: &str) -> Vec<String> {
    scan(src).iter().filter(|t| matches!(t.kind, TokKind::Str | TokKind::Float | TokKind::Char | TokKind::Int)).map(|t| src[t.start..t.end].to_string()).collect()
}

/// token texts without comments, parentheses and commas (the formatter may add or drop those)
fn token_stream(src: &str) -> Vec<String> {
    scan(src)
        .iter()
        .filter(|t| t.kind != TokKind::Comment)
        .map(|t| src[t.start..t.end].to_string())
        .filter(|t| t != "(" && t != ")" && t != "," && t != "in")
        .collect()
}

fn tok_class(src: &str, t: &Tok) -> String {
    let text = &src[t.start..t.end];
    match t.kind {
        TokKind::Ident => {
            if ["let", "in", "rec", "if", "then", "else", "match", "with", "type", "do", "seq"].contains(&text) {
                format!("kw:{}", text)
            } else {
                "ident".into()
            }
        }
        TokKind::Int | TokKind::Float | TokKind::Str | TokKind::Char => "literal".into(),
        TokKind::Op => format!("op:{}", if text.starts_with('#') { "#prim" } else { text }),
        TokKind::Punct => format!("p:{}", text),
        TokKind::Comment => "comment".into(),
    }
}

fn collect_glu(dir: &str, out: &mut Vec<String>) {
    if let Ok(rd) = std::fs::read_dir(dir) {
        let mut entries: Vec<_> = rd.filter_map(|e| e.ok()).collect();
        entries.sort_by_key(|e| e.path());
        for e in entries {
            let p = e.path();
            if p.is_dir() {
                collect_glu(&p.to_string_lossy(), out);
            } else if p.extension().map_or(false, |x| x == "glu") {
                out.push(p.to_string_lossy().to_string());
            }
        }
    }
}

impl W {
    fn format(&mut self, src: &str) -> Result<Result<String, String>, (String, String)> {
        if self.vm.is_none() || self.used > 300 {
            self.vm = Some(vm_with(Settings { prelude: true, ..Settings::PLAIN }));
            self.used = 0;
        }
        self.used += 1;
        let vm = self.vm.clone().unwrap();
        let r = crate::worker::guarded(|| {
            let mut f = gluon_format::Formatter { expanded: false };
            vm.format_expr(&mut f, "c10", src).map_err(|e| e.to_string())
        });
        if r.is_err() {
            self.vm = None;
        }
        r
    }

    /// the oracles; `placement` names where comments were put (None = no added comments)
    fn judge(&mut self, h: u64, src: &str, placement: Option<&str>, check_ast: bool) -> CaseResult {
        let pl = placement.unwrap_or("none");
        let mut r = CaseResult::ok(h, scan(src).len() >= 8);
        let out = match self.format(src) {
            Err((loc, msg)) => {
                return CaseResult::violation(h, format!("formatter panicked at {}: {}\n--- input\n{}", loc, msg.lines().next().unwrap_or(""), src), json!({"kind": "host-panic", "location": crate::worker::strip_repo(&loc), "placement": pl}));
            }
            Ok(Err(e)) if e.contains("Could not find module") => {
                // the file imports a sibling test module by a path relative to the repository
                let mut r = CaseResult::skip("imports a module that is not on the search path of the harness");
                r.stat("inputs_with_unresolvable_imports", 1);
                return r;
            }
            Ok(Err(e)) => {
                return CaseResult::violation(h, format!("format_expr fails on an input that parses: {}\n--- input\n{}", e.lines().next().unwrap_or(""), src), json!({"kind": "format-error", "placement": pl}));
            }
            Ok(Ok(o)) => o,
        };
        r.stat("formatted", 1);
        // meaning: same tree from the real parser, positions erased
        let _ = check_ast;
        match (ast_fingerprint(src), ast_fingerprint(&out)) {
            (Ok(a), Ok(b)) => {
                r.stat("ast_compared", 1);
                if a != b {
                    // locate the first difference for the witness
                    let k = a.bytes().zip(b.bytes()).position(|(x, y)| x != y).unwrap_or(a.len().min(b.len()));
                    let ctx = |t: &str| t[k.saturating_sub(80)..(k + 80).min(t.len())].to_string();
                    return CaseResult::violation(
                        h,
                        format!("formatting changed the AST (positions ignored); first difference:\n  in : ..{}..\n  out: ..{}..\n--- input\n{}\n--- output\n{}", ctx(&a), ctx(&b), src, out),
                        json!({"kind": "ast-changed", "placement": pl}),
                    );
                }
            }
            (Ok(_), Err(e)) => {
                return CaseResult::violation(h, format!("formatted text does not parse: {}\n--- input\n{}\n--- output\n{}", e, src, out), json!({"kind": "output-unparsable", "placement": pl}));
            }
            (Err(_), _) => {
                let mut r = CaseResult::skip("input does not parse");
                r.stat("inputs_not_parsing", 1);
                return r;
            }
        }
        // literals byte for byte
        if literals_of(src) != literals_of(&out) {
            return CaseResult::violation(h, format!("literal tokens differ\n--- input\n{}\n--- output\n{}", src, out), json!({"kind": "literals-changed", "placement": pl}));
        }
        // comments in order
        let (ci, co) = (comments_of(src), comments_of(&out));
        r.stat("comments_in_inputs", ci.len() as u64);
        if ci != co {
            let verdict = if co.len() < ci.len() && co.iter().all(|c| ci.contains(c)) {
                "comment-dropped"
            } else if co.len() > ci.len() {
                "comment-duplicated"
            } else {
                "comment-text-or-order-changed"
            };
            // what stands right before the first lost comment (own-line placements are classified
            // by it: a comment after `in`, after a binding, before an alternative ...)
            let mut after = "?".to_string();
            let mut before = "?".to_string();
            if let Some(lost) = ci.iter().find(|c| !co.contains(c)) {
                let toks = scan(src);
                if let Some(k) = toks.iter().position(|t| t.kind == TokKind::Comment && src[t.start..t.end].trim_end() == lost) {
                    let prev = toks[..k].iter().rev().find(|t| t.kind != TokKind::Comment);
                    let next = toks[k + 1..].iter().find(|t| t.kind != TokKind::Comment);
                    after = prev.map_or("start".to_string(), |t| tok_class(src, t));
                    before = next.map_or("end".to_string(), |t| tok_class(src, t));
                }
            }
            return CaseResult::violation(h, format!("comments differ: input {:?} output {:?}\n--- input\n{}\n--- output\n{}", ci, co, src, out), json!({"kind": verdict, "placement": pl, "lost_after": after, "lost_before": before}));
        }
        // idempotence
        match self.format(&out) {
            Ok(Ok(o2)) => {
                r.stat("idempotence_checked", 1);
                if o2 != out {
                    // classify the difference: only blank lines added right after a line ending in
                    // an opening bracket?
                    let l1: Vec<&str> = out.lines().collect();
                    let l2: Vec<&str> = o2.lines().collect();
                    let mut i = 0;
                    let mut only_blank_after_open = true;
                    let mut prev = "";
                    for l in &l2 {
                        if i < l1.len() && l1[i] == *l {
                            prev = l;
                            i += 1;
                        } else if l.trim().is_empty() && (prev.trim_end().ends_with('(') || prev.trim_end().ends_with('[') || prev.trim_end().ends_with('{') || prev.trim().is_empty()) {
                            prev = l;
                        } else {
                            only_blank_after_open = false;
                            break;
                        }
                    }
                    if i != l1.len() {
                        only_blank_after_open = false;
                    }
                    let diff = if only_blank_after_open { "blank-line-after-open-bracket" } else { "other" };
                    return CaseResult::violation(h, format!("formatting is not idempotent\n--- once\n{}\n--- twice\n{}", out, o2), json!({"kind": "not-idempotent", "placement": pl, "diff": diff}));
                }
            }
            Ok(Err(e)) => return CaseResult::violation(h, format!("formatting the formatter's own output fails: {}", e.lines().next().unwrap_or("")), json!({"kind": "format-error-on-own-output", "placement": pl})),
            Err((loc, _)) => return CaseResult::violation(h, format!("formatter panicked on its own output at {}", loc), json!({"kind": "host-panic", "location": crate::worker::strip_repo(&loc), "placement": pl, "second_pass": true})),
        }
        r
    }
}

impl Worker for W {
    fn gen(&mut self, rng: &mut Rng, idx: u64) -> Option<Value> {
        if self.phase == "repo-files" {
            if self.files.is_none() {
                let mut v = Vec::new();
                for d in ["/repo/std", "/repo/examples", "/repo/tests"] {
                    collect_glu(d, &mut v);
                }
                self.files = Some(v);
            }
            let files = self.files.as_ref().unwrap();
            if files.is_empty() {
                return None;
            }
            let variants = 4u64;
            let i = (idx / variants) as usize;
            if i >= files.len() {
                return None;
            }
            return Some(json!({"file": files[i], "variant": idx % variants, "salt": rng.next() % 1000}));
        }
        let mut opts = GenOpts::default_ordered();
        opts.max_depth = 2 + rng.below(5) as u32;
        opts.node_budget = 20 + rng.below(100) as i32;
        let g = gen_program(rng, opts);
        let mut bits = rng.next() as u32 & 0b11011;
        if self.phase == "own-line-comments" {
            bits |= 0b100;
        }
        let mut src = print_program(&g.program, Style::from_bits(bits));
        let mut placement = Value::Null;
        if self.phase == "inline-comments" {
            let toks: Vec<Tok> = scan(&src);
            // only gaps inside the generated body (after the import preamble)
            let start = src.find("import! std.string.prim").map(|p| p + 24).unwrap_or(0);
            let gaps: Vec<usize> = (1..toks.len()).filter(|i| toks[*i].start > start).collect();
            if gaps.is_empty() {
                return None;
            }
            let gi = gaps[rng.below(gaps.len())];
            let (before, after) = (&toks[gi - 1], &toks[gi]);
            let same_line = !src[before.end..after.start].contains('\n');
            let text = format!("/* c{} */", idx);
            placement = json!(format!("inline:{}|{}", tok_class(&src, before), tok_class(&src, after)));
            let at = if same_line { before.end } else { after.start };
            src = format!("{} {} {}", &src[..at], text, &src[at..]);
        }
        if self.phase == "own-line-comments" && rng.chance(1, 6) {
            // a line comment that ends the input without a newline
            src = format!("{}// end{}", src, idx);
        }
        let crlf = rng.chance(1, 5);
        if crlf {
            src = src.replace('\n', "\r\n");
        }
        Some(json!({"src": src, "style_bits": bits, "crlf": crlf, "placement": placement}))
    }

    fn run(&mut self, case: &Value) -> CaseResult {
        if self.phase == "repo-files" {
            let path = case["file"].as_str().unwrap();
            let mut src = match std::fs::read_to_string(path) {
                Ok(s) => s,
                Err(e) => return CaseResult::inconclusive(0, format!("cannot read {}: {}", path, e)),
            };
            let variant = case["variant"].as_u64().unwrap_or(0);
            match variant {
                1 => {
                    // trailing spaces on every third line
                    src = src.lines().enumerate().map(|(i, l)| if i % 3 == 0 && !l.is_empty() { format!("{}  ", l) } else { l.to_string() }).collect::<Vec<_>>().join("\n") + "\n";
                }
                2 => {
                    // an extra blank line after every line that starts at column 0 with `let`/`type`
                    src = src.lines().map(|l| if l.starts_with("let ") || l.starts_with("type ") { format!("\n{}", l) } else { l.to_string() }).collect::<Vec<_>>().join("\n") + "\n";
                }
                3 => src = src.replace("\r\n", "\n").replace('\n', "\r\n"),
                _ => {}
            }
            let h = hash_str(&src);
            if !parses(&src) {
                let mut r = CaseResult::skip("input does not parse");
                r.stat("inputs_not_parsing", 1);
                return r;
            }
            let mut r = self.judge(h, &src, Some("repo-file"), false);
            r.feat(format!("variant-{}", variant));
            if r.verdict == Verdict::Violation {
                r.sig["file"] = json!(path.trim_start_matches("/repo/"));
                r.sig["variant"] = json!(variant);
            }
            return r;
        }
        let src = case["src"].as_str().unwrap();
        let h = hash_str(src);
        if !parses(src) {
            // an inserted comment may legitimately break the layout (e.g. before the first token
            // of an indented block): not an input the property speaks about
            let mut r = CaseResult::skip("input does not parse");
            r.stat("inputs_not_parsing", 1);
            return r;
        }
        let placement = match self.phase.as_str() {
            "inline-comments" => Some("inline"),
            "own-line-comments" => Some("own-line-between-bindings"),
            _ => None,
        };
        let mut r = self.judge(h, src, placement, true);
        let bits = case["style_bits"].as_u64().unwrap_or(0);
        // "plain" = layout or explicit `in`, compact, no redundant parentheses: what people write
        let style_class = if bits & 0b10 == 0 && bits & 0b10000 != 0 { "plain" } else { "multi-line-parenthesised" };
        if r.verdict == Verdict::Violation {
            r.sig["style"] = json!(style_class);
        }
        r.feat(format!("style-{}", style_class));
        if let Some(g) = case["placement"].as_str() {
            r.feat(g.to_string());
            if r.verdict == Verdict::Violation {
                r.sig["gap"] = json!(g);
            }
        }
        if case["crlf"].as_bool().unwrap_or(false) {
            r.feat("crlf");
        }
        r
    }
}
