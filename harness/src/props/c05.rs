//! C05 — garbage collection is transparent and never frees a reachable value.
//! Monitors: outcome equality across forced collection schedules (hook H2), the structural heap
//! oracle `verif_check_heaps` (reachable ⊆ live, hooks H1/H3-H5), reclamation to a baseline, and
//! the same workload under AddressSanitizer.
use crate::lang::gen::{gen_program, GenOpts};
use crate::lang::print::{print_program, Style};
use crate::prop::*;
use crate::rng::{hash_str, Rng};
use crate::vmutil::*;
use gluon::vm::api::{FunctionRef, Hole, OpaqueValue};
use gluon::vm::thread::RootedValue;
use gluon::vm::verif;
use gluon::{RootedThread, Thread, ThreadExt};
use serde_json::{json, Value};
use std::sync::atomic::Ordering;

pub struct C05;

const KS: &[usize] = &[1, 2, 3, 5, 8, 13, 21];

impl Prop for C05 {
    fn id(&self) -> &'static str {
        "C05"
    }
    fn rule(&self) -> &'static str {
        "programs (G-prog and an allocation-heavy family: lists, arrays of every representation, strings, closures, partial applications, lazy/force, ref/<-/load, channels, spawned threads, module-level cells, host handles) run once without stress and then under 'collect at every k-th allocation check' for several k plus explicit host collections; after every run the heap oracle walks all heaps from all roots; a case is non-trivial when a forced collection actually freed >= 1 object while the program was running; distinct = (program text, k)"
    }
    fn assumptions(&self) -> Vec<String> {
        vec![
            "the heap oracle observes only quiescent points (after an evaluation / a host collection); a root missing only while Rust code holds an unrooted value is seen through outcome differences and sanitizer reports".into(),
            "reclamation is judged against a baseline taken on the same VM after a warm-up run of the same program".into(),
        ]
    }
    fn phases(&self, tier: Tier) -> Vec<Phase> {
        vec![
            Phase::new("gprog-stress", tier.pick(1600, 60000)).min_cases(tier.pick(400, 15000)).timeouts(120, tier.pick(300, 1500)),
            Phase::new("alloc-family", tier.pick(480, 5000)).min_cases(tier.pick(100, 1200)).timeouts(180, tier.pick(300, 1500)),
            Phase::new("host-handles", tier.pick(1500, 60_000)).min_cases(tier.pick(500, 15_000)).timeouts(120, tier.pick(300, 1500)),
            Phase::new("host-handles-asan", tier.pick(150, 3000)).build(Build::Asan).min_cases(tier.pick(50, 800)).timeouts(300, tier.pick(300, 1500)),
            Phase::new("alloc-family-asan", tier.pick(48, 240)).build(Build::Asan).min_cases(tier.pick(20, 60)).timeouts(300, tier.pick(300, 1500)),
        ]
    }
    fn worker(&self, ctx: &WorkerCtx) -> Box<dyn Worker> {
        Box::new(W { phase: ctx.phase.clone() })
    }
}

struct W {
    phase: String,
}

const HELPERS: &str = r#"
let { wrap } = import! std.applicative
let io @ { ? } = import! std.io
let array = import! std.array
let string = import! std.string
let list @ { List, ? } = import! std.list
let mk n = [n, n + 1, n + 2, n + 3]
rec let churn n acc =
    if n == 0 then acc
    else churn (n - 1) (array.len (mk n) + acc)
in
rec let build n acc : Int -> List Int -> List Int =
    if n == 0 then acc
    else build (n - 1) (Cons n acc)
in
rec let total l acc : List Int -> Int -> Int =
    match l with
    | Nil -> acc
    | Cons x xs -> total xs (acc + x)
in
"#;

/// (name, modules, main program); all run with the implicit prelude and run_io(true)
fn family(rng: &mut Rng) -> (String, Vec<(String, String)>, String) {
    let n = 5 + rng.below(60);
    let m = 50 + rng.below(400);
    let k = rng.below(13);
    match k {
        0 => (
            "list-build-sum".into(),
            vec![],
            format!("{}\nlet l = build {} Nil\nlet j = churn {} 0\n(total l 0, j)\n", HELPERS, n, m),
        ),
        1 => (
            "array-append".into(),
            vec![],
            format!(
                "{}\nrec let go n acc = if n == 0 then acc else go (n - 1) (array.append acc [n, n * 2])\nin\nlet a = go {} []\nlet j = churn {} 0\n(array.len a, array.index a 0, array.index a (array.len a - 1), j)\n",
                HELPERS, n, m
            ),
        ),
        2 => (
            "string-build".into(),
            vec![],
            format!(
                "{}\nrec let go n acc = if n == 0 then acc else go (n - 1) (acc ++ show n ++ \"åx\")\nin\nlet s = go {} \"\"\nlet j = churn {} 0\n(string.len s, s, j)\n",
                HELPERS, n, m
            ),
        ),
        3 => (
            "closures-partial".into(),
            vec![],
            format!(
                "{}\nlet add3 a b c = a + b + c\nrec let mkfs n acc = if n == 0 then acc else mkfs (n - 1) (Cons (add3 n (n * 2)) acc)\nin\nrec let apply_all l acc =\n    match l with\n    | Nil -> acc\n    | Cons f fs -> apply_all fs (acc + f 1)\nin\nlet fs = mkfs {} Nil\nlet j = churn {} 0\n(apply_all fs 0, j)\n",
                HELPERS, n, m
            ),
        ),
        4 => (
            "arrays-every-repr".into(),
            vec![],
            format!(
                "{}\nlet j0 = churn {} 0\nlet a = ([1b, 2b], [1.5, 2.5], [\"s\", \"tt\" ++ show j0], [[1], [2, 3]], [(1, \"x\")], [Some j0, None], ['a', 'b'], [()])\nlet j = churn {} 0\n(a, j)\n",
                HELPERS, n, m
            ),
        ),
        5 => (
            "lazy-force-local".into(),
            vec![],
            format!(
                "{}\nlet {{ lazy, force }} = import! std.lazy\nlet l = lazy (\\_ -> build {} Nil)\nlet a = total (force l) 0\nlet j = churn {} 0\nlet b = total (force l) 0\n(a, b, j)\n",
                HELPERS, n, m
            ),
        ),
        6 => (
            "reference-local".into(),
            vec![],
            format!(
                "{}\nlet {{ ref, load, (<-) }} = import! std.reference\ndo r = ref (mk 1)\ndo _ = r <- mk {}\nlet j = churn {} 0\ndo v = load r\ndo _ = r <- array.append v v\nlet j2 = churn 50 0\ndo w = load r\nwrap (v, w, j, j2)\n",
                HELPERS, n, m
            ),
        ),
        7 => (
            "channel-same-thread".into(),
            vec![],
            format!(
                "{}\nlet {{ send, recv, channel }} = import! std.channel\ndo {{ sender, receiver }} = channel [\"\"]\nlet s1 = \"abc\" ++ show (churn 3 0)\ndo _ = send sender [s1, \"k\" ++ show {}]\nlet j = churn {} 0\ndo _ = send sender [\"second\" ++ show j]\ndo x = recv receiver\nlet j2 = churn 100 0\ndo y = recv receiver\ndo z = recv receiver\nwrap (x, y, z, j2)\n",
                HELPERS, n, m
            ),
        ),
        8 => (
            "spawned-thread-channel".into(),
            vec![],
            format!(
                "{}\nlet {{ send, recv, channel }} = import! std.channel\nlet {{ spawn, yield, resume }} = import! std.thread\ndo {{ sender, receiver }} = channel [\"\"]\ndo thread = spawn (\n        let s1 = \"abc\" ++ show (churn {} 0)\n        let s2 = \"defgh\" ++ show (churn 4 0)\n        seq send sender [s1, s2]\n        wrap ()\n    )\nseq resume thread\ndo x = recv receiver\nlet j = churn {} 0\nlet junk = [\"zzzzzzzzzzzzz\" ++ show j, \"yyyyyyyyyyyyyyy\" ++ show j]\nwrap (x, j, junk)\n",
                HELPERS, n, m
            ),
        ),
        9 => (
            "module-level-lazy".into(),
            vec![("c05lmod".into(), format!("let {{ lazy }} = import! std.lazy\nlet mk n = [n, n + 1, n + 2, n + 3]\n{{ l = lazy (\\_ -> mk {}) }}\n", n))],
            format!(
                "{}\nlet {{ force }} = import! std.lazy\nlet m = import! c05lmod\nlet a = array.index (force m.l) 0\nlet j = churn {} 0\nlet b = force m.l\n(a, b, j)\n",
                HELPERS, m
            ),
        ),
        10 => (
            "module-level-lazy-in-closure".into(),
            vec![(
                "c05l2mod".into(),
                format!("let {{ lazy, force }} = import! std.lazy\nlet mk n = [n, n + 1, n + 2, n + 3]\nlet cell = lazy (\\_ -> (mk {}, \"s\"))\n{{ get = \\u -> force cell, other = lazy (\\_ -> mk 3) }}\n", n),
            )],
            format!(
                "{}\nlet {{ force }} = import! std.lazy\nlet m = import! c05l2mod\nlet a = (m.get ())._0\nlet j = churn {} 0\nlet b = m.get ()\nlet c = force m.other\n(array.index a 1, b, c, j)\n",
                HELPERS, m
            ),
        ),
        11 => (
            "records-variants-deep".into(),
            vec![],
            format!(
                "{}\ntype T = | Leaf Int | Node T T\nrec let tree d = if d == 0 then Leaf d else Node (tree (d - 1)) (tree (d - 1))\nin\nrec let size t =\n    match t with\n    | Leaf _ -> 1\n    | Node l r -> size l + size r\nin\nlet t = tree {}\nlet r = {{ a = t, b = {{ c = [t, t], d = (t, \"s\" ++ show {}) }} }}\nlet j = churn {} 0\n(size r.a, size (array.index r.b.c 1), r.b.d._1, j)\n",
                HELPERS, 2 + n % 6, n, m
            ),
        ),
        _ => (
            "partial-application-of-extern".into(),
            vec![],
            format!(
                "{}\nlet app = array.append (mk {})\nlet j = churn {} 0\nlet idx = array.index (app (mk 7))\n(idx 0, idx 5, j, string.append \"p\" (show j))\n",
                HELPERS, n, m
            ),
        ),
    }
}

fn io_vm() -> RootedThread {
    let mut s = Settings::PLAIN;
    s.prelude = true;
    s.run_io = true;
    s.optimize = true;
    vm_with(s)
}

struct HeapObs {
    dangling: Vec<String>,
    ownership: Vec<String>,
    objects: u64,
    edges: u64,
    heaps: u64,
}

fn heap_check(vm: &Thread) -> HeapObs {
    let rep = vm.verif_check_heaps();
    let mut o = HeapObs { dangling: vec![], ownership: vec![], objects: rep.live_objects as u64, edges: rep.edges as u64, heaps: rep.heaps as u64 };
    for e in &rep.bad {
        let d = format!("{} {}", if e.from.is_some() { "object" } else { "root" }, e.type_name);
        if e.to_heap.is_none() {
            o.dangling.push(d);
        } else {
            o.ownership.push(d);
        }
    }
    o
}

fn short_type(t: &str) -> String {
    t.rsplit("::").next().unwrap_or(t).trim_end_matches('>').to_string()
}

impl Worker for W {
    fn gen(&mut self, rng: &mut Rng, idx: u64) -> Option<Value> {
        if self.phase.starts_with("host-handles") {
            // events: eval <program of a small pool> (the host keeps the handle), drop <handle>,
            // collect, churn (allocate and drop garbage so that freed blocks are reused)
            let n = 6 + rng.below(14);
            let mut events: Vec<Value> = Vec::new();
            let mut live = 0usize;
            for _ in 0..n {
                match rng.below(10) {
                    0..=4 => {
                        events.push(json!({"ev": "eval", "prog": rng.below(HANDLE_POOL.len())}));
                        live += 1;
                    }
                    5 | 6 if live > 0 => events.push(json!({"ev": "drop", "which": rng.below(64)})),
                    7 => events.push(json!({"ev": "collect"})),
                    _ => events.push(json!({"ev": "churn", "n": *rng.pick(&[10u64, 200, 2000])})),
                }
            }
            events.push(json!({"ev": "collect"}));
            events.push(json!({"ev": "churn", "n": 500}));
            return Some(json!({"family": "host-handles", "events": events, "stress": *rng.pick(&[0usize, 0, 1, 5]), "key": {"family": "host-handles"}}));
        }
        if self.phase == "gprog-stress" {
            let mut opts = GenOpts::default_ordered();
            opts.max_depth = 3 + rng.below(4) as u32;
            opts.node_budget = 40 + rng.below(80) as i32;
            opts.fail_pct = 15;
            let g = gen_program(rng, opts);
            let style_bits = rng.next() as u32 & 0b11011;
            let src = print_program(&g.program, Style::from_bits(style_bits));
            let ks: Vec<usize> = vec![KS[rng.below(3)], KS[3 + rng.below(4)]];
            Some(json!({"family": "gprog", "modules": [], "src": src, "ks": ks, "io": false, "feats": g.feats}))
        } else {
            let (name, modules, src) = family(rng);
            let ks: Vec<usize> = if self.phase.ends_with("asan") { vec![KS[rng.below(2)], KS[2 + rng.below(5)]] } else { vec![1, KS[1 + rng.below(3)], KS[4 + rng.below(3)]] };
            let _ = idx;
            Some(json!({"family": name, "modules": modules.iter().map(|(n, s)| json!([n, s])).collect::<Vec<_>>(), "src": src, "ks": ks, "io": true,
                        "key": {"family": name}}))
        }
    }

    fn run(&mut self, case: &Value) -> CaseResult {
        if case["family"] == "host-handles" {
            return run_host_handles(case);
        }
        let src = case["src"].as_str().unwrap();
        let family = case["family"].as_str().unwrap_or("").to_string();
        let io = case["io"].as_bool().unwrap_or(false);
        let ks: Vec<usize> = case["ks"].as_array().map(|a| a.iter().filter_map(|x| x.as_u64().map(|v| v as usize)).collect()).unwrap_or_default();
        let h = hash_str(&format!("{}{:?}", src, ks));
        let mk = || {
            let vm = if io { io_vm() } else { vm_with(Settings { optimize: false, ..Settings::PLAIN }) };
            for m in case["modules"].as_array().cloned().unwrap_or_default() {
                let (n, s) = (m[0].as_str().unwrap().to_string(), m[1].as_str().unwrap().to_string());
                if let Err(e) = vm.load_script(&n, &s) {
                    return Err(format!("module {} does not load: {}", n, e));
                }
            }
            Ok(vm)
        };
        // ---- reference run: no stress, fresh VM
        verif::set_gc_stress(0);
        let vm0 = match mk() {
            Ok(v) => v,
            Err(e) => return CaseResult::inconclusive(h, e),
        };
        let base = match crate::worker::guarded(|| run_program_budget(&vm0, "c05_main", src, 5_000_000)) {
            Ok(b) => b,
            Err((loc, _)) => {
                // the compiler crashed before anything ran: C01/C02's finding, nothing for the GC
                let mut r = CaseResult::skip(&format!("host panic at {}", loc));
                r.stat("skipped_compiler_panic", 1);
                std::mem::forget(vm0);
                return r;
            }
        };
        if let Outcome::Error(c, m) = &base {
            if c == "typecheck" || c == "parse" || c == "budget" || c == "macro" {
                if family == "gprog" && c != "parse" {
                    let mut r = CaseResult::skip(m);
                    r.stat("rejected_by_checker", 1);
                    return r;
                }
                return CaseResult::inconclusive(h, format!("workload program rejected [{}]: {}", c, m));
            }
        }
        let mut r = CaseResult::ok(h, false);
        let mut problems: Vec<(String, Value)> = Vec::new();
        let note_heap = |r: &mut CaseResult, problems: &mut Vec<(String, Value)>, o: HeapObs, when: &str| {
            r.stat("heap_walks", 1).stat("objects_walked", o.objects).stat("edges_checked", o.edges).stat("heaps_seen", o.heaps);
            r.stat("ownership_edges_seen_precursor", o.ownership.len() as u64);
            for d in o.dangling {
                let st = short_type(&d);
                problems.push((
                    format!("dangling edge ({}) {}", when, d),
                    json!({"kind": "dangling-edge", "holder": if d.starts_with("root") { "root" } else { "object" }, "target_type": st, "family": family}),
                ));
            }
        };
        note_heap(&mut r, &mut problems, heap_check(&vm0), "after unstressed run");
        drop(vm0);
        // ---- stressed runs
        let mut freed_any = false;
        for k in &ks {
            let vm = match mk() {
                Ok(v) => v,
                Err(e) => return CaseResult::inconclusive(h, e),
            };
            verif::reset_counters();
            verif::set_gc_stress(*k);
            let got = run_program_budget(&vm, "c05_main", src, 5_000_000);
            verif::set_gc_stress(0);
            let forced = verif::FORCED_COLLECTIONS.load(Ordering::SeqCst) as u64;
            let freed = verif::FREED_OBJECTS.load(Ordering::SeqCst) as u64;
            r.stat("forced_collections", forced).stat("objects_freed_by_forced_collections", freed).stat("stressed_runs", 1);
            if freed > 0 {
                freed_any = true;
            }
            let same = match (&base, &got) {
                (Outcome::Value(a, _), Outcome::Value(b, _)) => a == b,
                (a, b) => a == b,
            };
            if !same {
                problems.push((
                    format!("outcome depends on the collection schedule: unstressed {} but with a collection at every {}-th check {}", base.short(), k, got.short()),
                    json!({"kind": "schedule-dependent-outcome", "family": family, "unstressed": crate::props::c01::outcome_class(&base), "stressed": crate::props::c01::outcome_class(&got)}),
                ));
            }
            note_heap(&mut r, &mut problems, heap_check(&vm), &format!("after run with k={}", k));
            // explicit host collection, then the oracle again and a second evaluation on the same VM
            vm.collect();
            note_heap(&mut r, &mut problems, heap_check(&vm), &format!("after host collect, k={}", k));
            r.stat("host_collections", 1);
            if matches!(got, Outcome::Value(..)) {
                verif::set_gc_stress(*k);
                let again = run_program_budget(&vm, "c05_again", src, 5_000_000);
                verif::set_gc_stress(0);
                let same2 = match (&base, &again) {
                    (Outcome::Value(a, _), Outcome::Value(b, _)) => a == b,
                    (a, b) => a == b,
                };
                if !same2 {
                    problems.push((
                        format!("second evaluation on the same VM after a host collection differs: {} vs {}", base.short(), again.short()),
                        json!({"kind": "schedule-dependent-outcome", "family": family, "unstressed": crate::props::c01::outcome_class(&base), "stressed": crate::props::c01::outcome_class(&again), "second_run": true}),
                    ));
                }
                note_heap(&mut r, &mut problems, heap_check(&vm), "after second evaluation");
            }
        }
        // ---- host handles kept across collections, and reclamation
        if io && matches!(base, Outcome::Value(..)) && !case["modules"].as_array().map_or(false, |m| !m.is_empty()) {
            if let Ok(vm) = mk() {
                let warm = vm.run_expr::<OpaqueValue<&Thread, Hole>>("c05_warm", src).map(|_| ());
                drop(warm);
                vm.collect();
                let baseline = vm.allocated_memory();
                verif::set_gc_stress(2);
                let held: Option<RootedValue<RootedThread>> = vm.run_expr::<OpaqueValue<RootedThread, Hole>>("c05_hold", src).ok().map(|(v, _)| v.into_inner());
                verif::set_gc_stress(0);
                vm.collect();
                vm.collect();
                if let Some(v) = &held {
                    // the handle must still denote the same value
                    let mut s = String::new();
                    render(v.get_variant().as_ref(), &mut s, 0);
                    if let Outcome::Value(b, _) = &base {
                        if &s != b {
                            problems.push((
                                format!("value behind a host handle changed across collections: {} vs {}", b, s),
                                json!({"kind": "host-handle-changed", "family": family}),
                            ));
                        }
                    }
                    r.stat("host_handles_checked", 1);
                }
                note_heap(&mut r, &mut problems, heap_check(&vm), "with a host handle held");
                drop(held);
                vm.collect();
                let after = vm.allocated_memory();
                r.stat("reclamation_checks", 1);
                if after > baseline {
                    problems.push((
                        format!("memory not reclaimed: baseline {} bytes, after dropping all handles and collecting {} bytes", baseline, after),
                        json!({"kind": "not-reclaimed", "family": family}),
                    ));
                }
            }
        }
        r.nontrivial = freed_any;
        r.feat(family.clone());
        if let Some((msg, sig)) = problems.into_iter().next() {
            let mut v = CaseResult::violation(h, msg, sig);
            v.stats = r.stats;
            v.features = r.features;
            return v;
        }
        r
    }
}

#[allow(dead_code)]
fn _unused(_: FunctionRef<fn(i64) -> i64>) {}


/// programs whose results are built at run time (never interned literals); several of them give
/// equal contents in distinct objects when evaluated twice
const HANDLE_POOL: &[&str] = &[
    "let string = import! std.string.prim\nstring.append \"ab\" \"cd\"\n",
    "let string = import! std.string.prim\nstring.append \"held by \" \"the host\"\n",
    "let string = import! std.string.prim\n[string.append \"x\" \"y\", string.append \"x\" \"y\"]\n",
    "let k = 3\n{ a = [k, k #Int+ 1], b = (k, 2.5) }\n",
    "let string = import! std.string.prim\nlet s = string.append \"p\" \"q\"\n\\x -> (x #Int+ 1, s)\n",
    "[1.5, 2.5, 3.5]\n",
    "let string = import! std.string.prim\nstring.append \"\" \"\"\n",
];

/// The host keeps handles to values, drops some, collects, allocates: every handle it still
/// holds must read exactly what it read when it was created.
fn run_host_handles(case: &Value) -> CaseResult {
    use gluon::vm::api::{Hole, OpaqueValue};
    let h = hash_str(&case.to_string());
    let vm = vm_with(Settings { optimize: false, ..Settings::PLAIN });
    let stress = case["stress"].as_u64().unwrap_or(0) as usize;
    let mut handles: Vec<Option<(gluon::vm::thread::RootedValue<RootedThread>, String, usize)>> = Vec::new();
    let mut r = CaseResult::ok(h, true);
    let render_handle = |v: &gluon::vm::thread::RootedValue<RootedThread>| verif::value_shape(v.get_variant());
    let events = case["events"].as_array().cloned().unwrap_or_default();
    for (k, ev) in events.iter().enumerate() {
        match ev["ev"].as_str().unwrap_or("") {
            "eval" => {
                let p = ev["prog"].as_u64().unwrap_or(0) as usize % HANDLE_POOL.len();
                verif::set_gc_stress(stress);
                let res = vm.run_expr::<OpaqueValue<RootedThread, Hole>>(&format!("c05_h{}", k), HANDLE_POOL[p]);
                verif::set_gc_stress(0);
                match res {
                    Ok((v, _)) => {
                        let rv = v.into_inner();
                        let shape = render_handle(&rv);
                        handles.push(Some((rv, shape, p)));
                        r.stat("handles_created", 1);
                    }
                    Err(e) => return CaseResult::inconclusive(h, format!("pool program rejected: {}", e)),
                }
            }
            "drop" => {
                let alive: Vec<usize> = handles.iter().enumerate().filter(|(_, x)| x.is_some()).map(|(i, _)| i).collect();
                if !alive.is_empty() {
                    // prefer the youngest handles some of the time: root entries are a stack
                    let w = ev["which"].as_u64().unwrap_or(0) as usize;
                    let i = if w % 2 == 0 { alive[alive.len() - 1 - (w / 2) % alive.len().min(2)] } else { alive[w % alive.len()] };
                    handles[i] = None;
                    r.stat("handles_dropped", 1);
                }
            }
            "collect" => {
                vm.collect();
                r.stat("host_collections", 1);
            }
            _ => {
                let n = ev["n"].as_u64().unwrap_or(100);
                let _ = run_program(&vm, &format!("c05_churn{}", k), &format!("let string = import! std.string.prim\nrec let go n acc = if n #Int< 1 then acc else go (n #Int- 1) (string.append \"zzzzzzzzzzzzzzzzzzzz\" \"yyyyyyyyyyyyyyyyyyyy\")\nin go {} \"\"\n", n));
            }
        }
        // every handle still held reads what it read when it was created
        for (i, hd) in handles.iter().enumerate() {
            if let Some((rv, want, p)) = hd {
                let got = render_handle(rv);
                r.stat("handle_reads_compared", 1);
                if &got != want {
                    return CaseResult::violation(
                        h,
                        format!("after event #{} ({}) the host's handle #{} (pool program {}) reads `{}`, it read `{}` when it was created", k, ev, i, p, got.chars().take(200).collect::<String>(), want),
                        json!({"kind": "host-handle-value-changed", "family": "host-handles"}),
                    );
                }
            }
        }
        let o = heap_check(&vm);
        r.stat("heap_walks", 1).stat("objects_walked", o.objects).stat("edges_checked", o.edges);
        if let Some(d) = o.dangling.first() {
            return CaseResult::violation(h, format!("after event #{} ({}): dangling edge {}", k, ev, d), json!({"kind": "dangling-edge", "holder": if d.starts_with("root") { "root" } else { "object" }, "target_type": short_type(d), "family": "host-handles"}));
        }
    }
    r.feat("host-handles");
    r
}
