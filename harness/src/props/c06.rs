//! C06 — scripts cannot crash the host; errors are values; the VM stays usable.
use crate::lang::gen::{gen_program, GenOpts};
use crate::lang::print::{print_program, Style};
use crate::prop::*;
use crate::rng::{hash_str, mix, Rng};
use crate::vmutil::*;
use gluon::base::types::{self, ArcType};
use gluon::vm::api::{Hole, OpaqueValue};
use gluon::vm::thread::ThreadInternal;
use gluon::{RootedThread, Thread, ThreadExt};
use serde_json::{json, Value};

pub struct C06;

const PRIM_MODULES: &[&str] = &[
    "std.prim",
    "std.byte.prim",
    "std.int.prim",
    "std.float.prim",
    "std.string.prim",
    "std.char.prim",
    "std.array.prim",
    "std.lazy.prim",
    "std.reference.prim",
    "std.st.reference.prim",
    "std.channel.prim",
    "std.thread.prim",
    "std.debug.prim",
    "std.io.prim",
    "std.env.prim",
    "std.path.prim",
    "std.fs.prim",
    "std.effect.st.string.prim",
    "std.json.prim",
    "std.regex.prim",
    "std.random.prim",
];

/// primitives that are not exercised, with the reason (listed in the evidence)
const SKIPPED: &[(&str, &str)] = &[
    ("std.process.prim.*", "spawns host processes"),
    ("std.thread.prim.sleep", "boundary arguments sleep for centuries (wall-clock, no verdict possible)"),
    ("std.thread.prim.join", "needs two running green threads; covered by C17"),
    ("std.io.prim.read_line", "blocks on the host's stdin"),
    ("std.fs.prim.*", "only against the scratch directory; destructive calls skipped"),
    ("std.http.*", "feature not compiled in"),
    ("std.env.prim.set_current_dir", "changes the harness' own working directory"),
];

impl Prop for C06 {
    fn id(&self) -> &'static str {
        "C06"
    }
    fn rule(&self) -> &'static str {
        "phase primitives: every function exported by the std primitive modules (types read from the live VM) called with boundary-value argument tuples of its type (full cross product for arity <= 2 and whenever it has at most 4000 tuples, sampled beyond), run with run_io(true); phase histories: random interleavings (<= 12 steps) of failing and succeeding generated programs on one long-lived VM, after every step a fixed probe set is evaluated and compared with a fresh VM, and frames / value-stack length / allocated memory after collect() are compared with the pre-failure baseline; non-trivial = the call / history contains >= 1 failing evaluation; distinct = (primitive, argument tuple) or history text"
    }
    fn assumptions(&self) -> Vec<String> {
        let mut v: Vec<String> = SKIPPED.iter().map(|(p, why)| format!("not exercised: {} ({})", p, why)).collect();
        v.push("a failure must reach the host as Err(..) from run_expr; process death, signals and Rust panics refute the property".into());
        v
    }
    fn phases(&self, tier: Tier) -> Vec<Phase> {
        let mut v = vec![
            Phase::new("primitives", 60000).min_cases(tier.pick(2000, 8000)).timeouts(60, tier.pick(300, 1500)),
            Phase::new("histories", tier.pick(400, 20000)).min_cases(tier.pick(100, 4000)).timeouts(120, tier.pick(300, 1500)),
        ];
        if tier == Tier::Thorough {
            v.push(Phase::new("primitives-asan", 60000).build(Build::Asan).min_cases(2000).timeouts(120, 1500));
            v.push(Phase::new("primitives-release", 60000).build(Build::Release).min_cases(2000).timeouts(60, 1500));
        }
        v
    }
    fn worker(&self, ctx: &WorkerCtx) -> Box<dyn Worker> {
        Box::new(W { phase: ctx.phase.clone(), tier: ctx.tier, seed: ctx.seed, calls: None, vm: None, used: 0, unsupported: 0, enumerated: 0 })
    }
}

struct W {
    phase: String,
    tier: Tier,
    seed: u64,
    calls: Option<Vec<Value>>,
    vm: Option<RootedThread>,
    used: u32,
    unsupported: u64,
    enumerated: u64,
}

/// (source text, class label)
fn values_for(ty: &str) -> Vec<(String, &'static str)> {
    let s = |x: &str| x.to_string();
    match ty {
        "Int" => vec![
            (s("0"), "zero"),
            (s("1"), "one"),
            (s("(-1)"), "minus-one"),
            (s("2"), "small"),
            (s("36"), "small"),
            (s("37"), "small"),
            (s("63"), "small"),
            (s("64"), "small"),
            (s("100"), "small"),
            (s("3"), "just-past-small-collections"),
            (s("5"), "just-past-small-collections"),
            (s("35184372088832"), "huge-size"),
            (s("4611686018427387904"), "size-times-eight-overflows"),
            (s("((-9223372036854775807) #Int- 1)"), "min"),
            (s("9223372036854775807"), "max"),
            (s("1114112"), "beyond-char"),
            (s("55296"), "surrogate"),
        ],
        "Byte" => vec![(s("0b"), "zero"), (s("1b"), "one"), (s("128b"), "mid"), (s("255b"), "max")],
        "Float" => vec![
            (s("0.0"), "zero"),
            (s("(0.0 #Float* (-1.0))"), "neg-zero"),
            (s("1.5"), "normal"),
            (s("(-2.25)"), "normal"),
            (s("(1.0 #Float/ 0.0)"), "inf"),
            (s("((-1.0) #Float/ 0.0)"), "neg-inf"),
            (s("(0.0 #Float/ 0.0)"), "nan"),
            (s("100000000000000000000000000000000000000000000000000000000000000000000000000000000000000000000000000000000000000000000000000000000000000000000000000000000000000000000000000000000000000000000000000000000000000000000000000000000000000000000000000000000000000000000000000000000000000000000000000000.0"), "huge"),
            (s("9223372036854775808.0"), "beyond-int"),
        ],
        "Char" => vec![(s("'a'"), "ascii"), (s("' '"), "ascii"), (s("'~'"), "ascii"), (s("'0'"), "digit")],
        "String" => vec![
            (s("\"\""), "empty"),
            (s("\"abc\""), "ascii"),
            (s("\"åäö日本\""), "multi-byte"),
            (s("\"12\""), "digits"),
            (s("\"-5\""), "digits"),
            (s("\"1.5e400\""), "number-like"),
            (s("\"a/b/../c\""), "path-like"),
            (s("\"(\""), "regex-bad"),
            (s("\"{\\\"a\\\": [1, 2\""), "json-bad"),
            (s("\"\\n\\t\""), "whitespace"),
            (format!("\"{}\"", "xy".repeat(32768)), "64KiB"),
        ],
        "std.types.Bool" | "Bool" => vec![(s("True"), "true"), (s("False"), "false")],
        "()" => vec![(s("()"), "unit")],
        "Array Byte" => vec![(s("[]"), "empty"), (s("[255b, 254b]"), "invalid-utf8"), (s("[97b, 98b]"), "ascii")],
        "Array Int" => vec![(s("[]"), "empty"), (s("[1, 2, 3]"), "ints")],
        "Array String" => vec![(s("[]"), "empty"), (s("[\"a\", \"\"]"), "strings")],
        "Array a" | "Array b" => vec![(s("[]"), "empty"), (s("[1]"), "one"), (s("[1, 2, 3, 4, 5]"), "many"), (s("[\"s\", \"t\"]"), "strings")],
        "a" | "b" | "c" | "t" | "e" => vec![(s("1"), "int"), (s("\"s\""), "string"), (s("()"), "unit"), (s("[1.5]"), "array")],
        "std.types.Option a" | "std.types.Option Int" => vec![(s("None"), "none"), (s("(Some 1)"), "some")],
        _ => vec![],
    }
}

fn skip_primitive(module: &str, field: &str) -> bool {
    let full = format!("{}.{}", module, field);
    matches!(full.as_str(), "std.thread.prim.sleep" | "std.thread.prim.join" | "std.io.prim.read_line" | "std.env.prim.set_current_dir")
        || (module == "std.fs.prim" && (field.contains("remove") || field.contains("rename") || field.contains("copy") || field.contains("write") || field.contains("create")))
        || (module == "std.io.prim" && (field.contains("write") || field.contains("create") || field.contains("open") || field.contains("flush") || field == "run_expr" || field == "load_script"))
}

fn enumerate_calls(vm: &Thread) -> (Vec<Value>, Vec<String>) {
    let mut out = Vec::new();
    let mut unsupported = Vec::new();
    for module in PRIM_MODULES {
        let src = format!("import! {}", module);
        let typ: ArcType = match vm.run_expr::<OpaqueValue<&Thread, Hole>>("c06_enum", &src) {
            Ok((_, t)) => t,
            Err(_) => {
                unsupported.push(format!("{}: module not available", module));
                continue;
            }
        };
        let env = vm.get_env();
        let resolved = gluon::base::resolve::remove_aliases_cow(&env, &mut types::NullInterner, types::remove_forall(&typ)).into_owned();
        for field in types::row_iter(&resolved) {
            let fname = field.name.declared_name().to_string();
            if skip_primitive(module, &fname) {
                continue;
            }
            let ft = types::remove_forall(&field.typ);
            let args: Vec<String> = types::arg_iter(ft).map(|a| a.to_string()).collect();
            let fname_src = if fname.chars().next().map_or(false, |c| c.is_alphabetic() || c == '_') { fname.clone() } else { format!("({})", fname) };
            if args.is_empty() {
                // a constant: just evaluate it
                out.push(json!({"module": module, "function": fname, "args": [], "classes": [], "src": format!("let m = import! {}\nm.{}\n", module, fname_src)}));
                continue;
            }
            let choices: Vec<Vec<(String, &'static str)>> = args.iter().map(|a| values_for(a)).collect();
            if choices.iter().any(|c| c.is_empty()) {
                unsupported.push(format!("{}.{} : {}", module, fname, args.join(" -> ")));
                continue;
            }
            // cross product for arity <= 2 and for every primitive with at most 4000 tuples; beyond
            // that each value appears with a rotating partner
            let mut tuples: Vec<Vec<usize>> = Vec::new();
            let product: usize = choices.iter().map(|c| c.len()).product();
            if choices.len() <= 2 || product <= 4000 {
                let mut idx = vec![0usize; choices.len()];
                loop {
                    tuples.push(idx.clone());
                    let mut k = 0;
                    loop {
                        idx[k] += 1;
                        if idx[k] < choices[k].len() {
                            break;
                        }
                        idx[k] = 0;
                        k += 1;
                        if k == idx.len() {
                            break;
                        }
                    }
                    if k == idx.len() {
                        break;
                    }
                }
            } else {
                let maxlen = choices.iter().map(|c| c.len()).max().unwrap();
                for shift in 0..3 {
                    for i in 0..maxlen {
                        tuples.push(choices.iter().enumerate().map(|(p, c)| (i + p * shift) % c.len()).collect());
                    }
                }
            }
            for t in tuples {
                let a: Vec<&(String, &'static str)> = t.iter().enumerate().map(|(p, i)| &choices[p][*i]).collect();
                let src = format!(
                    "let {{ Bool, Option }} = import! std.types\nlet m = import! {}\nm.{} {}\n",
                    module,
                    fname_src,
                    a.iter().map(|x| x.0.as_str()).collect::<Vec<_>>().join(" ")
                );
                out.push(json!({"module": module, "function": fname, "classes": a.iter().map(|x| x.1).collect::<Vec<_>>(), "src": src}));
            }
        }
    }
    (out, unsupported)
}

const PROBES: &[(&str, &str)] = &[
    ("1 #Int+ 2", "3"),
    ("let f x y = x #Int* y in let g = f 3 in g 4", "12"),
    ("let { Bool } = import! std.types in if 1 #Int< 2 then \"y\" else \"n\"", "\"y\""),
    ("let s = import! std.string.prim in s.len (s.append \"ab\" \"cd\")", "4"),
    ("let a = import! std.array.prim in a.len (a.append [1] [2, 3])", "3"),
    ("let { error } = import! std.prim in error \"probe-fails\"", "error[explicit] probe-fails"),
    ("rec let go n acc = if n #Int< 1 then acc else go (n #Int- 1) (acc #Int+ n) in go 50 0", "1275"),
];

fn probe(vm: &Thread, tag: &str) -> Vec<String> {
    PROBES
        .iter()
        .enumerate()
        .map(|(i, (src, _))| match crate::worker::guarded(|| run_program_budget(vm, &format!("c06_probe{}_{}", i, tag), src, 200_000)) {
            Ok(Outcome::Value(v, _)) => v,
            Ok(o) => o.short(),
            Err((loc, _)) => format!("PANIC {}", loc),
        })
        .collect()
}

fn measure(vm: &Thread) -> (usize, usize) {
    let mut c = vm.context();
    let fl = c.frame_level();
    let sl = c.stack_frame::<gluon::vm::stack::State>().len() as usize;
    (fl, sl)
}

impl Worker for W {
    fn gen(&mut self, rng: &mut Rng, idx: u64) -> Option<Value> {
        if self.phase.starts_with("primitives") {
            if self.calls.is_none() {
                let mut s = Settings::PLAIN;
                s.run_io = true;
                let vm = vm_with(s);
                let (calls, unsupported) = enumerate_calls(&vm);
                self.unsupported = unsupported.len() as u64;
                self.enumerated = calls.len() as u64;
                self.calls = Some(calls);
            }
            let calls = self.calls.as_ref().unwrap();
            let i = idx as usize;
            if i >= calls.len() {
                return None;
            }
            // quick tier: a seeded third of the calls
            // (every call is run in both tiers: the whole sweep takes seconds)
            let _ = (mix(self.seed, idx), self.tier);
            let c = &calls[i];
            let mut case = c.clone();
            case["key"] = json!({"primitive": format!("{}.{}", c["module"].as_str().unwrap(), c["function"].as_str().unwrap()), "arg_classes": c["classes"]});
            Some(case)
        } else {
            // history: steps of failing / succeeding programs
            let n = 2 + rng.below(11);
            let mut steps = Vec::new();
            for _ in 0..n {
                let mut opts = GenOpts::default_ordered();
                opts.max_depth = 3 + rng.below(4) as u32;
                opts.node_budget = 30 + rng.below(60) as i32;
                let kind = rng.below(6);
                opts.fail_pct = if kind < 3 { 100 } else { 0 };
                let g = gen_program(rng, opts);
                let mut src = print_program(&g.program, Style::from_bits(rng.next() as u32 & 0b11011));
                if kind == 5 {
                    // a failure deep in non-tail recursion (frames to unwind)
                    src = format!("let {{ error }} = import! std.prim\nlet {{ Bool }} = import! std.types\nlet mk n = [n, n #Int+ 1, n #Int+ 2]\nrec let go n acc = if n #Int== 0 then error \"deep\" else 1 #Int+ go (n #Int- 1) (mk n)\nin go {} (mk 0)\n", 5 + rng.below(120));
                }
                if kind == 4 {
                    src = crate::lang::mutate::mutate(&src, rng).0;
                }
                steps.push(src);
            }
            Some(json!({"steps": steps}))
        }
    }

    fn finish(&mut self) -> serde_json::Map<String, Value> {
        let mut m = serde_json::Map::new();
        if self.enumerated > 0 {
            // per worker (each worker enumerates the same list): report the maximum via a gauge-like key
            m.insert("enumerated_calls_x_workers".into(), json!(self.enumerated));
            m.insert("primitive_signatures_without_boundary_values_x_workers".into(), json!(self.unsupported));
        }
        m
    }

    fn run(&mut self, case: &Value) -> CaseResult {
        if self.phase.starts_with("primitives") {
            let src = case["src"].as_str().unwrap();
            let h = hash_str(src);
            if self.vm.is_none() || self.used >= 400 {
                let mut s = Settings::PLAIN;
                s.run_io = true;
                self.vm = Some(vm_with(s));
                self.used = 0;
            }
            self.used += 1;
            let vm = self.vm.clone().unwrap();
            let out = crate::worker::guarded(|| run_program_budget(&vm, &format!("c06_{:x}", h), src, 1_000_000));
            let mut r = match out {
                Ok(Outcome::Value(..)) => {
                    let mut r = CaseResult::ok(h, false);
                    r.stat("calls_returned_value", 1);
                    r
                }
                Ok(Outcome::Error(c, m)) => {
                    if c == "typecheck" || c == "parse" {
                        let mut r = CaseResult::skip(&m);
                        r.stat("call_not_well_typed", 1);
                        return r;
                    }
                    self.vm = None;
                    let mut r = CaseResult::ok(h, true);
                    r.stat("calls_returned_error_value", 1);
                    r
                }
                Err((loc, msg)) => {
                    self.vm = None;
                    CaseResult::violation(
                        h,
                        format!("Rust panic escaped run_expr at {}: {}", loc, msg.lines().next().unwrap_or("")),
                        crate::worker::merge_key(json!({"kind": "host-panic", "location": crate::worker::strip_repo(&loc)}), case),
                    )
                }
            };
            r.stat("primitive_calls", 1);
            r.feat(case["key"]["primitive"].as_str().unwrap_or("?").to_string());
            return r;
        }
        // ---- histories
        let steps: Vec<String> = case["steps"].as_array().unwrap().iter().map(|s| s.as_str().unwrap().to_string()).collect();
        let h = hash_str(&steps.join("\u{0}"));
        let fresh = vm_with(Settings::PLAIN);
        let expected = probe(&fresh, "fresh");
        drop(fresh);
        let vm = vm_with(Settings::PLAIN);
        // warm up so that lazily loaded modules are part of the baseline
        let _ = probe(&vm, "warm");
        vm.collect();
        let (fl0, sl0) = measure(&vm);
        let mem0 = vm.allocated_memory();
        let mut r = CaseResult::ok(h, false);
        let mut failures = 0;
        for (i, src) in steps.iter().enumerate() {
            // The front end is C09's business: if it dies or panics on this (possibly mutated)
            // text, that is not a statement about primitives and the VM after a failure
            crate::worker::clear_key();
            crate::worker::note_key(&json!({"not_this_property": true, "stage": "typecheck"}));
            let pre = crate::worker::guarded(|| vm.typecheck_str(&format!("c06_h{}_tc", i), src, None).map(|_| ()).map_err(|e| e.to_string()));
            crate::worker::clear_key();
            match pre {
                Ok(Ok(())) => {}
                Ok(Err(_)) => {
                    r.stat("compile_failures_in_histories", 1);
                    continue;
                }
                Err(_) => {
                    r.stat("histories_cut_by_compiler_panic", 1);
                    std::mem::forget(vm);
                    r.verdict = Verdict::Skip;
                    return r;
                }
            }
            let _ = crate::worker::take_panic();
            let out = crate::worker::guarded(|| run_program_budget(&vm, &format!("c06_h{}", i), src, 300_000));
            // a panic inside the repository that was caught on the way (a primitive handed a value
            // of the wrong shape by a miscompiled program) is an internal failure as well
            if let (Ok(_), Some((loc, _))) = (&out, crate::worker::take_panic()) {
                if loc.starts_with("/repo/") {
                    r.stat("histories_cut_by_internal_failure", 1);
                    std::mem::forget(vm);
                    r.verdict = Verdict::Skip;
                    return r;
                }
            }
            // an internal failure (ice!: a miscompiled program handed a primitive a value of the
            // wrong shape) is C01 / C02's finding; what the VM looks like afterwards is not judged
            if let Ok(Outcome::Error(c, m)) = &out {
                if c == "ice" || c == "shape" || m.contains("Please report an issue") {
                    r.stat("histories_cut_by_internal_failure", 1);
                    std::mem::forget(vm);
                    r.verdict = Verdict::Skip;
                    return r;
                }
            }
            match out {
                Err((loc, msg)) => {
                    // a compiler / front-end panic is C01/C02/C09's finding; the history ends here
                    r.stat("histories_cut_by_compiler_panic", 1);
                    let _ = (loc, msg);
                    std::mem::forget(vm);
                    r.verdict = Verdict::Skip;
                    return r;
                }
                Ok(Outcome::Error(c, _)) => {
                    if c != "typecheck" && c != "parse" {
                        failures += 1;
                        r.stat("runtime_failures_in_histories", 1);
                    } else {
                        r.stat("compile_failures_in_histories", 1);
                    }
                }
                Ok(_) => {
                    r.stat("successes_in_histories", 1);
                }
            }
            // (b) the VM must still evaluate like a fresh one
            let got = probe(&vm, &format!("s{}", i));
            r.stat("probe_sets_compared", 1);
            if got != expected {
                let k = got.iter().zip(expected.iter()).position(|(a, b)| a != b).unwrap_or(0);
                return CaseResult::violation(
                    h,
                    format!("after step {} the VM evaluates probe `{}` to {} but a fresh VM gives {}", i, PROBES[k].0, got[k], expected[k]),
                    json!({"kind": "vm-not-usable-after-failure", "probe": k}),
                );
            }
            // (c) frames, stack and memory return to the baseline
            vm.collect();
            let (fl, sl) = measure(&vm);
            let mem = vm.allocated_memory();
            r.stat("baseline_comparisons", 1);
            if fl != fl0 || sl != sl0 {
                let mut v = CaseResult::violation(
                    h,
                    format!("after step {} ({} runtime failures so far) the VM holds {} frames / {} value-stack slots, baseline {} / {}", i, failures, fl, sl, fl0, sl0),
                    json!({"kind": "stack-not-unwound", "frames_grew": fl != fl0, "values_grew": sl != sl0}),
                );
                v.stats = r.stats;
                return v;
            }
            // memory: module code of the evaluated programs stays loaded by design; the probes
            // themselves add nothing after warm-up, so only growth far beyond the program texts
            // is judged (stack junk shows up in the slot count above)
            let budget = mem0 + 64 * 1024 + steps.iter().map(|s| s.len() * 200).sum::<usize>();
            if mem > budget {
                return CaseResult::violation(h, format!("after step {} allocated memory after collect() is {} bytes, baseline {}", i, mem, mem0), json!({"kind": "memory-not-reclaimed"}));
            }
        }
        r.nontrivial = failures > 0;
        r
    }
}
