//! C09 — the front end is total: any text yields a result or renderable errors.
use crate::lang::gen::{gen_program, GenOpts};
use crate::lang::mutate::mutate;
use crate::lang::print::{print_program, Style};
use crate::prop::*;
use crate::rng::{hash_str, Rng};
use crate::vmutil::*;
use gluon::base::pos::{BytePos, Span};
use gluon::base::source::Source;
use gluon::base::symbol::{SymbolModule, Symbols};
use gluon::base::types::TypeCache;
use gluon::{RootedThread, ThreadExt};
use serde_json::{json, Value};

pub struct C09;

const MAX_LEN: usize = 4096;
const DEPTH: usize = 200;

impl Prop for C09 {
    fn id(&self) -> &'static str {
        "C09"
    }
    fn rule(&self) -> &'static str {
        "inputs of at most 4 KiB from four families in about equal shares: random UTF-8 (ASCII, multi-byte, control characters), token soups drawn from the real token vocabulary with random indentation and line breaks, grammar-aware mutations (delete / duplicate / swap tokens, re-indent, truncate, retype literals) of generated programs and of the repository's .glu files, and nesting ladders (parentheses, lambdas, records, if, match, applications, lets nested 10..200 deep); each input goes through parse_partial_root_expr and through typecheck_str with and without the implicit prelude; monitors: panic / dead worker, CPU-time budget, every error span inside its file on char boundaries with start <= end, emit_string succeeds and is non-empty; non-trivial = the input has >= 5 tokens; distinct = input text"
    }
    fn assumptions(&self) -> Vec<String> {
        vec![
            format!("'moderate nesting' is read as depth <= {}", DEPTH),
            "'never hangs' is read as: returns within 30 s of process CPU time (4 orders of magnitude above the typical cost of an input)".into(),
        ]
    }
    fn phases(&self, tier: Tier) -> Vec<Phase> {
        vec![Phase::new("inputs", tier.pick(8000, 600000)).min_cases(tier.pick(2000, 100000)).timeouts(120, tier.pick(300, 1700))]
    }
    fn worker(&self, _ctx: &WorkerCtx) -> Box<dyn Worker> {
        Box::new(W { vms: [None, None], used: 0, files: None })
    }
}

struct W {
    vms: [Option<RootedThread>; 2],
    used: u32,
    files: Option<Vec<String>>,
}

const VOCAB: &[&str] = &[
    "let", "in", "rec", "if", "then", "else", "match", "with", "type", "do", "seq", "forall", "import!", "\\", "->", "=", "|", ":", ".", ",", "(", ")", "{", "}", "[", "]", "..", "?", "@", "#[", "#[infix(left, 4)]", "#[implicit]",
    "+", "-", "*", "/", "==", "<", "<|", "|>", ">>=", "&&", "||", "#Int+", "#Float*", "x", "y", "f", "Some", "None", "True", "Int", "String", "a", "_", "1", "0", "42", "3.5", "1b", "\"s\"", "\"\"", "'c'", "r#\"raw\"#", "//", "/* c */", "///", "//! m", "std.prelude", "x.y.z", "(+)", "0x1F",
    // macros and attributes handled by macro expansion
    "convert_effect!", "convert_variant!", "lift_io!", "import! std.", "#[derive(Deserialize)]", "#[derive(Serialize)]", "#[derive(Eq, Show)]", "#[derive(Show, Eq, Serialize, Deserialize)]", "#[derive(", "#[doc(hidden)]", "type T = {}",
    "type T = | A | B Int", "type R = { x : Int }", "r.", "{}", "?x", "é",
];

/// Short inputs that use the built-in macros and derive attributes with the wrong number or kind
/// of arguments, on small and degenerate type declarations
fn macro_misuse(rng: &mut Rng) -> String {
    const MACROS: &[&str] = &["convert_effect!", "convert_variant!", "lift_io!", "import!"];
    const ARGS: &[&str] = &["1", "x", "?x", "\"s\"", "(1, 2)", "{ }", "{ a = 1 }", "std.prelude", "Some", "(\\y -> y)", "[1]", "r.", "a.b", "_"];
    const DERIVES: &[&str] = &["Eq", "Show", "Serialize", "Deserialize", "Ord", "Functor", "Nope"];
    const TYPES: &[&str] = &["{}", "{ x : Int }", "| A", "| A | B Int", "| A a", "Int", "a -> a", "{ x : Int, .. }", "forall a . { x : a }", "| A { x : Int }", "()"];
    let mut s = String::new();
    for _ in 0..(1 + rng.below(3)) {
        match rng.below(3) {
            0 => {
                s.push_str(*rng.pick(MACROS));
                for _ in 0..rng.below(4) {
                    s.push(' ');
                    s.push_str(*rng.pick(ARGS));
                }
                s.push('\n');
            }
            1 => {
                let n = 1 + rng.below(3);
                let ds: Vec<&str> = (0..n).map(|_| *rng.pick(DERIVES)).collect();
                s.push_str(&format!("#[derive({})]\ntype T{} {} = {}\n", ds.join(", "), rng.below(3), if rng.chance(1, 3) { "a" } else { "" }, rng.pick(TYPES)));
            }
            _ => {
                s.push_str(&format!("let v{} = {} {}\n", rng.below(3), rng.pick(MACROS), rng.pick(ARGS)));
            }
        }
    }
    s.push_str(*rng.pick(&["()", "1", "T0", "", "v0", "{ T0 }"]));
    s.push('\n');
    s
}

fn random_text(rng: &mut Rng) -> String {
    let n = rng.below(400);
    let mut s = String::new();
    for _ in 0..n {
        match rng.below(12) {
            0..=5 => s.push((32 + rng.below(95) as u8) as char),
            6 => s.push(*rng.pick(&['\n', '\n', '\t', '\r', '\0', '\u{7f}', '\u{1}'])),
            7 => s.push(*rng.pick(&['å', 'λ', '日', '→', '\u{feff}', '\u{200b}', '𝒳', '\u{10ffff}', 'é'])),
            8 => s.push_str(*rng.pick(&["\"", "'", "\\", "//", "/*", "*/", "#", "r#\"", "0x", "1e", "'\\", "\"\\"])),
            _ => {
                s.push_str(*rng.pick(VOCAB));
                s.push(' ');
            }
        }
    }
    s
}

fn token_soup(rng: &mut Rng) -> String {
    let n = 3 + rng.below(150);
    let mut s = String::new();
    for _ in 0..n {
        s.push_str(*rng.pick(VOCAB));
        match rng.below(8) {
            0 => {
                s.push('\n');
                s.push_str(&" ".repeat(rng.below(12)));
            }
            1 => {}
            _ => s.push(' '),
        }
    }
    s
}

fn ladder(rng: &mut Rng) -> String {
    let d = 10 + rng.below(DEPTH - 9);
    match rng.below(9) {
        0 => format!("{}1{}", "(".repeat(d), ")".repeat(d)),
        1 => format!("{}1", "\\x -> ".repeat(d)),
        2 => format!("{}1{}", "{ a = ".repeat(d), " }".repeat(d)),
        3 => format!("{}1{}", "if True then ".repeat(d), " else 0".repeat(d)),
        4 => format!("{}1{}", "f (".repeat(d), ")".repeat(d)),
        5 => format!("{}x", (0..d).map(|i| format!("let x{} = {} in ", i, i)).collect::<String>()),
        6 => format!("{}1{}", "[".repeat(d), "]".repeat(d)),
        7 => {
            // nested matches by indentation
            let mut s = String::new();
            for i in 0..d.min(60) {
                s.push_str(&format!("{}match x with\n{}| y ->\n", " ".repeat(i * 2), " ".repeat(i * 2)));
            }
            s.push_str(&format!("{}1\n", " ".repeat(d.min(60) * 2)));
            s
        }
        _ => format!("let x : {}Int{} = 1 in x", "(".repeat(d), ")".repeat(d)),
    }
}

fn clip(mut s: String) -> String {
    if s.len() > MAX_LEN {
        let mut e = MAX_LEN;
        while !s.is_char_boundary(e) {
            e -= 1;
        }
        s.truncate(e);
    }
    s
}

fn collect_glu(dir: &str, out: &mut Vec<String>) {
    if let Ok(rd) = std::fs::read_dir(dir) {
        let mut entries: Vec<_> = rd.filter_map(|e| e.ok()).collect();
        entries.sort_by_key(|e| e.path());
        for e in entries {
            let p = e.path();
            if p.is_dir() {
                collect_glu(&p.to_string_lossy(), out);
            } else if p.extension().map_or(false, |x| x == "glu") {
                out.push(p.to_string_lossy().to_string());
            }
        }
    }
}

/// every error's span must lie inside its file, ordered, on char boundaries
fn check_spans<E>(err: &gluon::base::error::InFile<E>, problems: &mut Vec<String>, spans: &mut u64)
where
    E: std::fmt::Display,
{
    for e in err.errors().iter() {
        let sp: Span<BytePos> = e.span;
        *spans += 1;
        if sp.start() > sp.end() {
            problems.push(format!("reversed span {}..{}", sp.start(), sp.end()));
            continue;
        }
        match err.source().get(sp.start()) {
            None if sp.start().to_usize() == 0 && sp.end().to_usize() == 0 => problems.push("default span (zero..zero) that belongs to no file of the error's code map".to_string()),
            None => problems.push(format!("span {}..{} starts outside every file of the error's code map", sp.start(), sp.end())),
            Some(file) => {
                let fs = file.span();
                if sp.end() > fs.end() {
                    problems.push(format!("span {}..{} ends after its file ({}..{})", sp.start(), sp.end(), fs.start(), fs.end()));
                    continue;
                }
                let src = file.src();
                let a = (sp.start() - fs.start()).to_usize();
                let b = (sp.end() - fs.start()).to_usize();
                if a > src.len() || b > src.len() || !src.is_char_boundary(a) || !src.is_char_boundary(b) {
                    problems.push(format!("span {}..{} is not on character boundaries of its file", sp.start(), sp.end()));
                }
            }
        }
    }
}

fn check_error(e: &gluon::Error, problems: &mut Vec<String>, spans: &mut u64) {
    match e {
        gluon::Error::Parse(f) => check_spans(f, problems, spans),
        gluon::Error::Typecheck(f) => check_spans(f, problems, spans),
        gluon::Error::Macro(f) => check_spans(f, problems, spans),
        gluon::Error::Multiple(es) => {
            for x in es.iter() {
                check_error(x, problems, spans);
            }
        }
        _ => {}
    }
}

impl Worker for W {
    fn gen(&mut self, rng: &mut Rng, _idx: u64) -> Option<Value> {
        if self.files.is_none() {
            let mut v = Vec::new();
            for d in ["/repo/std", "/repo/examples", "/repo/tests"] {
                collect_glu(d, &mut v);
            }
            self.files = Some(v);
        }
        let (family, text) = match rng.below(9) {
            8 => ("macro-misuse", macro_misuse(rng)),
            0 | 1 => ("random-utf8", random_text(rng)),
            2 | 3 => ("token-soup", token_soup(rng)),
            4 | 5 => {
                let mut opts = GenOpts::default_ordered();
                opts.max_depth = 2 + rng.below(4) as u32;
                opts.node_budget = 15 + rng.below(60) as i32;
                let g = gen_program(rng, opts);
                let mut s = print_program(&g.program, Style::from_bits(rng.next() as u32 & 0b11111));
                for _ in 0..(1 + rng.below(4)) {
                    s = mutate(&s, rng).0;
                }
                ("mutated-generated-program", s)
            }
            6 => {
                let files = self.files.as_ref().unwrap();
                if files.is_empty() {
                    ("token-soup", token_soup(rng))
                } else {
                    let f = rng.pick(files);
                    let mut s = std::fs::read_to_string(f).unwrap_or_default();
                    // a window of the file, then mutations
                    if s.len() > MAX_LEN {
                        let lines: Vec<&str> = s.lines().collect();
                        let start = rng.below(lines.len());
                        s = lines[start..].join("\n");
                    }
                    s = clip(s);
                    for _ in 0..(1 + rng.below(4)) {
                        s = mutate(&s, rng).0;
                    }
                    ("mutated-repository-file", s)
                }
            }
            _ => ("nesting-ladder", ladder(rng)),
        };
        Some(json!({"family": family, "text": clip(text), "key": {"family": family}}))
    }

    fn run(&mut self, case: &Value) -> CaseResult {
        crate::worker::set_cpu_budget(30.0);
        let text = case["text"].as_str().unwrap();
        let family = case["family"].as_str().unwrap_or("");
        let h = hash_str(text);
        let mut r = CaseResult::ok(h, crate::lang::mutate::scan(text).len() >= 5);
        r.feat(family.to_string());
        let mut problems: Vec<String> = Vec::new();
        let mut spans = 0u64;
        // ---- parser alone
        crate::worker::note_key(&json!({"stage": "parse"}));
        {
            let mut symbols = Symbols::new();
            let mut module = SymbolModule::new("c09".into(), &mut symbols);
            match gluon::parser::parse_partial_root_expr(&mut module, &TypeCache::default(), text) {
                Ok(_) => {
                    r.stat("parsed_ok", 1);
                }
                Err((_, errs)) => {
                    r.stat("parse_errors_returned", 1);
                    for e in errs.iter() {
                        spans += 1;
                        let (a, b) = (e.span.start().to_usize(), e.span.end().to_usize());
                        // parser spans are 1-based byte positions of the input
                        if a > b || b > text.len() + 1 {
                            problems.push(format!("parse error span {}..{} outside the input of {} bytes", a, b, text.len()));
                        } else if a >= 1 && b >= 1 && (!text.is_char_boundary(a - 1) || !text.is_char_boundary(b - 1)) {
                            problems.push(format!("parse error span {}..{} not on character boundaries", a, b));
                        }
                    }
                }
            }
        }
        // ---- whole front end, without and with the implicit prelude
        for (i, prelude) in [false, true].iter().enumerate() {
            if self.vms[i].is_none() || self.used > 2000 {
                self.vms[i] = Some(vm_with(Settings { prelude: *prelude, ..Settings::PLAIN }));
                if i == 1 {
                    self.used = 0;
                }
            }
            self.used += 1;
            let vm = self.vms[i].clone().unwrap();
            crate::worker::clear_key();
            crate::worker::note_key(&json!({"stage": if *prelude { "typecheck-with-prelude" } else { "typecheck" }}));
            let t0 = crate::worker::cpu_time();
            let res = crate::worker::guarded(|| vm.typecheck_str(&format!("c09_{:x}", h), text, None).map(|_| ()));
            let dt = crate::worker::cpu_time() - t0;
            r.stat("front_end_runs", 1).stat("cpu_ms_x", (dt * 1000.0) as u64);
            match res {
                Ok(Ok(())) => {
                    r.stat("accepted", 1);
                }
                Ok(Err(e)) => {
                    r.stat("errors_returned", 1);
                    check_error(&e, &mut problems, &mut spans);
                    match crate::worker::guarded(|| e.emit_string()) {
                        Ok(Ok(s)) if !s.trim().is_empty() => {
                            r.stat("errors_rendered", 1);
                        }
                        Ok(Ok(_)) => problems.push("emit_string rendered an empty text".into()),
                        Ok(Err(err)) => problems.push(format!("emit_string failed: {}", err)),
                        Err((loc, msg)) => {
                            self.vms[i] = None;
                            let mut v = CaseResult::violation(h, format!("rendering the errors panicked at {}: {}\n--- input\n{}", loc, msg.lines().next().unwrap_or(""), text), crate::worker::merge_key(json!({"kind": "host-panic", "location": crate::worker::strip_repo(&loc), "while": "render"}), case));
                            v.stats = r.stats;
                            return v;
                        }
                    }
                }
                Err((loc, msg)) => {
                    self.vms[i] = None;
                    let mut v = CaseResult::violation(
                        h,
                        format!("the front end panicked at {}: {}\n--- input ({} bytes, family {})\n{}", loc, msg.lines().next().unwrap_or(""), text.len(), family, text),
                        crate::worker::merge_key(json!({"kind": "host-panic", "location": crate::worker::strip_repo(&loc)}), case),
                    );
                    v.stats = r.stats;
                    return v;
                }
            }
        }
        r.stat("error_spans_checked", spans);
        if let Some(p) = problems.first() {
            let mut v = CaseResult::violation(h, format!("{}\n--- input\n{}", p, text), json!({"kind": "bad-error-span-or-rendering", "what": p.split(|c: char| c.is_ascii_digit()).next().unwrap_or("").trim()}));
            v.stats = r.stats;
            return v;
        }
        r
    }
}
