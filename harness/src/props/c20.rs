//! C20 — editor queries are total and agree with the typechecker.
use crate::lang::gen::{gen_program, GenOpts};
use crate::lang::mutate::{scan, TokKind};
use crate::lang::print::{print_program, Style};
use crate::prop::*;
use crate::rng::{hash_str, Rng};
use crate::vmutil::*;
use gluon::base::ast::{self, Expr, SpannedExpr, Visitor};
use gluon::base::pos::{BytePos, Span};
use gluon::base::symbol::Symbol;
use gluon::base::types::ArcType;
use gluon::query::{AsyncCompilation, CompilationBase};
use gluon::{RootedThread, ThreadExt};
use serde_json::{json, Value};

pub struct C20;

impl Prop for C20 {
    fn id(&self) -> &'static str {
        "C20"
    }
    fn rule(&self) -> &'static str {
        "generated programs in three conditions (complete, truncated at a random token boundary, one random token deleted); the typed (possibly partial) AST is obtained the way a language server gets it (typechecked_source_module, on error the salvaged expression); at every byte offset (sampled for large programs) find, suggest, signature_help, get_metadata and all_symbols are called; oracles: no panic; for every identifier use in the typed AST the type reported by `find` at its position equals the type the checker stored in that node; every name suggested at an identifier position, substituted for that identifier, must not make the checker report it as undefined (= it is in scope there); non-trivial = the program has >= 10 tokens; distinct = program text"
    }
    fn assumptions(&self) -> Vec<String> {
        vec!["the scope oracle is the real checker itself (substitute the suggestion and look for an 'Undefined variable' error naming it)".into()]
    }
    fn phases(&self, tier: Tier) -> Vec<Phase> {
        vec![Phase::new("queries", tier.pick(4000, 100000)).min_cases(tier.pick(1000, 20000)).timeouts(180, tier.pick(300, 1500))]
    }
    fn worker(&self, _ctx: &WorkerCtx) -> Box<dyn Worker> {
        Box::new(W { vm: None, used: 0 })
    }
}

struct W {
    vm: Option<RootedThread>,
    used: u32,
}

struct Idents {
    found: Vec<(Span<BytePos>, String, ArcType)>,
}

impl<'a, 'ast> Visitor<'a, 'ast> for Idents {
    type Ident = Symbol;
    fn visit_expr(&mut self, e: &'a SpannedExpr<'ast, Symbol>) {
        if let Expr::Ident(id) = &e.value {
            self.found.push((e.span, id.name.declared_name().to_string(), id.typ.clone()));
        }
        ast::walk_expr(self, e);
    }
}

impl Worker for W {
    fn gen(&mut self, rng: &mut Rng, idx: u64) -> Option<Value> {
        let mut opts = GenOpts::default_ordered();
        opts.max_depth = 2 + rng.below(4) as u32;
        opts.node_budget = 12 + rng.below(50) as i32;
        opts.fail_pct = 10;
        let g = gen_program(rng, opts);
        let mut src = print_program(&g.program, Style::from_bits(rng.next() as u32 & 0b11011));
        let toks: Vec<_> = scan(&src).into_iter().filter(|t| t.kind != TokKind::Comment).collect();
        let condition = match idx % 3 {
            0 => "complete",
            1 => {
                // truncate at a token boundary inside the generated body
                let body_start = src.find("import! std.string.prim").map(|p| p + 24).unwrap_or(0);
                let cands: Vec<usize> = toks.iter().filter(|t| t.start > body_start).map(|t| t.start).collect();
                if !cands.is_empty() {
                    let cut = *rng.pick(&cands);
                    src.truncate(cut);
                }
                "truncated"
            }
            _ => {
                let body_start = src.find("import! std.string.prim").map(|p| p + 24).unwrap_or(0);
                let cands: Vec<_> = toks.iter().filter(|t| t.start > body_start).collect();
                if !cands.is_empty() {
                    let t = *rng.pick(&cands);
                    src = format!("{}{}", &src[..t.start], &src[t.end..]);
                }
                "token-deleted"
            }
        };
        Some(json!({"src": src, "condition": condition, "stride_seed": rng.next() % 7}))
    }

    fn run(&mut self, case: &Value) -> CaseResult {
        let src = case["src"].as_str().unwrap();
        let h = hash_str(src);
        if self.vm.is_none() || self.used > 150 {
            self.vm = Some(vm_with(Settings::PLAIN));
            self.used = 0;
        }
        self.used += 1;
        let vm = self.vm.clone().unwrap();
        let name = format!("c20_{:x}", h);
        let mut r = CaseResult::ok(h, scan(src).len() >= 10);
        r.feat(case["condition"].as_str().unwrap_or("").to_string());
        // ---- typed (possibly partial) AST, the way a language server gets it
        crate::worker::note_key(&json!({"not_this_property": true, "stage": "typecheck"}));
        let typed = crate::worker::guarded(|| {
            vm.get_database_mut().add_module(name.clone(), src);
            let mut db = vm.get_database();
            match futures::executor::block_on(db.typechecked_source_module(name.clone(), None)) {
                Ok(v) => (Some((v.expr, v.metadata_map)), true),
                Err(s) => (s.value.map(|v| (v.expr, v.metadata_map)), false),
            }
        });
        crate::worker::clear_key();
        let (expr, meta, clean) = match typed {
            Ok((Some((e, m)), clean)) => (e, m, clean),
            Ok((None, _)) => {
                let mut r = CaseResult::skip("nothing salvaged from the front end");
                r.stat("no_ast_salvaged", 1);
                return r;
            }
            Err(_) => {
                // a front-end panic is C09's finding
                self.vm = None;
                let mut r = CaseResult::skip("front end panicked (C09)");
                r.stat("front_end_panics_seen_c09", 1);
                return r;
            }
        };
        r.stat(if clean { "typed_asts_clean" } else { "typed_asts_salvaged" }, 1);
        let env = vm.get_env();
        // spans are positions in the VM's code map: take the span of this module's file
        let whole = match vm.get_database().get_filemap(&name) {
            Some(fm) => fm.span(),
            None => Span::new(BytePos::from(1), BytePos::from(src.len() as u32 + 1)),
        };
        let base = whole.start().to_usize();
        // ---- totality at every offset (strided for big inputs)
        let stride = if src.len() > 1500 { 3 + case["stride_seed"].as_u64().unwrap_or(0) as usize } else { 1 };
        let mut off = 0usize;
        while off <= src.len() + 1 {
            let pos = BytePos::from((base + off) as u32);
            let res = crate::worker::guarded(|| {
                let _ = gluon_completion::find(&env, whole, expr.expr(), pos);
                let s = gluon_completion::suggest(&env, whole, expr.expr(), pos);
                let _ = gluon_completion::signature_help(&env, whole, expr.expr(), pos);
                let _ = gluon_completion::get_metadata(&meta, whole, expr.expr(), pos);
                s.len()
            });
            match res {
                Ok(n) => {
                    r.stat("offsets_queried", 1).stat("suggestions_returned", n as u64);
                }
                Err((loc, msg)) => {
                    self.vm = None;
                    let mut v = CaseResult::violation(
                        h,
                        format!("an editor query panicked at offset {} ({}): {}\n--- program ({})\n{}", off, loc, msg.lines().next().unwrap_or(""), case["condition"], src),
                        json!({"kind": "host-panic", "location": crate::worker::strip_repo(&loc), "condition": case["condition"]}),
                    );
                    v.stats = r.stats;
                    return v;
                }
            }
            off += stride;
        }
        if let Err((loc, msg)) = crate::worker::guarded(|| gluon_completion::all_symbols(whole, expr.expr()).len()) {
            self.vm = None;
            return CaseResult::violation(h, format!("all_symbols panicked at {}: {}", loc, msg), json!({"kind": "host-panic", "location": crate::worker::strip_repo(&loc), "query": "all_symbols"}));
        }
        // ---- agreement with the checker at identifier uses
        let mut ids = Idents { found: Vec::new() };
        ids.visit_expr(expr.expr());
        let body_start = src.find("import! std.string.prim").map(|p| p + 24).unwrap_or(0);
        let mut checked = 0;
        r.stat("identifier_nodes_in_typed_ast", ids.found.len() as u64);
        for (span, iname, typ) in ids.found.iter() {
            if span.start().to_usize() < base {
                continue;
            }
            let (s, e) = (span.start().to_usize() - base, span.end().to_usize() - base);
            if s < body_start || e > src.len() || s >= e || iname.starts_with('#') || !src.is_char_boundary(s) || !src.is_char_boundary(e) || &src[s..e] != iname.as_str() {
                continue;
            }
            let pos = span.start();
            match gluon_completion::find(&env, whole, expr.expr(), pos) {
                Ok(either) => {
                    let reported = match &either {
                        either::Either::Right(t) => t.to_string(),
                        either::Either::Left(k) => format!("kind {}", k),
                    };
                    // nodes the checker left untyped (`_`, e.g. identifiers it generates itself)
                    // carry no information to compare with
                    if typ.to_string() == "_" {
                        continue;
                    }
                    checked += 1;
                    if reported != typ.to_string() && !clean {
                        // in an AST salvaged from a program with errors the recovered nodes overlap;
                        // which node "the identifier at this position" is, is not well defined
                        // there: observed, not judged
                        r.stat("salvaged_ast_type_answers_that_differ", 1);
                        continue;
                    }
                    if reported != typ.to_string() {
                        let mut v = CaseResult::violation(
                            h,
                            format!("type reported at identifier `{}` (bytes {}..{}) is `{}` but the checker stored `{}`\n--- program\n{}", iname, s, e, reported, typ, src),
                            json!({"kind": "type-at-identifier-differs", "condition": case["condition"]}),
                        );
                        v.stats = r.stats;
                        return v;
                    }
                }
                Err(()) => {
                    r.stat("identifier_positions_without_answer", 1);
                }
            }
        }
        r.stat("identifier_types_compared", checked);
        // ---- suggestions are in scope: substitute and ask the checker
        if clean {
            let mut tried = 0;
            let mut nth_ident = 0usize;
            for (span, iname, _) in ids.found.iter() {
                if span.start().to_usize() < base {
                    continue;
                }
                let (s, e) = (span.start().to_usize() - base, span.end().to_usize() - base);
                if s < body_start || e > src.len() || s >= e || !src.is_char_boundary(s) || !src.is_char_boundary(e) || &src[s..e] != iname.as_str() || tried >= 40 {
                    continue;
                }
                // cursor after the first character of the identifier (prefix = that character) or,
                // every other time, at its start (empty prefix: everything in scope is offered)
                nth_ident += 1;
                let pos = BytePos::from((base + s + (nth_ident % 2)) as u32);
                let mut sugg = gluon_completion::suggest(&env, whole, expr.expr(), pos);
                // a different sample of the offered names at every position (they come sorted)
                let mut pick = crate::rng::Rng::new(h ^ (s as u64));
                pick.shuffle(&mut sugg);
                r.stat("scope_positions_queried", 1).stat("scope_position_suggestions", sugg.len() as u64);
                for sg in sugg.iter().take(12) {
                    if sg.name == *iname || !sg.name.chars().all(|c| c.is_alphanumeric() || c == '_') {
                        continue;
                    }
                    tried += 1;
                    let new_src = format!("{}{}{}", &src[..s], sg.name, &src[e..]);
                    let res = crate::worker::guarded(|| vm.typecheck_str(&format!("{}_sub{}", name, tried), &new_src, None).map(|_| ()).map_err(|e| e.to_string()));
                    r.stat("suggestions_scope_checked", 1);
                    if let Ok(Err(msg)) = res {
                        if msg.contains(&format!("Undefined variable `{}`", sg.name)) {
                            let mut v = CaseResult::violation(
                                h,
                                format!("`{}` is suggested at byte {} (inside `{}`) but is not in scope there: the checker says Undefined variable\n--- program\n{}", sg.name, s + 1, iname, src),
                                json!({"kind": "suggestion-not-in-scope"}),
                            );
                            v.stats = r.stats;
                            return v;
                        }
                    } else if res.is_err() {
                        self.vm = None;
                        break;
                    }
                }
            }
        }
        // ---- the same at literal positions: with no identifier under the cursor everything in
        // scope is offered; each sampled lowercase name replaces the literal and the checker says
        // whether it is bound there
        if clean && self.vm.is_some() {
            let toks = crate::lang::mutate::scan(src);
            let lits: Vec<&crate::lang::mutate::Tok> = toks.iter().filter(|t| t.kind == crate::lang::mutate::TokKind::Int && t.start >= body_start).collect();
            let mut tried = 0;
            let mut pick = crate::rng::Rng::new(h ^ 0x5eed);
            for k in 0..lits.len().min(6) {
                let t = lits[(k * 7 + (h as usize % 5)) % lits.len()];
                let pos = BytePos::from((base + t.start) as u32);
                let mut sugg = gluon_completion::suggest(&env, whole, expr.expr(), pos);
                r.stat("literal_positions_queried", 1).stat("literal_position_suggestions", sugg.len() as u64);
                pick.shuffle(&mut sugg);
                for sg in sugg.iter().filter(|sg| sg.name.chars().next().map_or(false, |c| c.is_ascii_lowercase()) && sg.name.chars().all(|c| c.is_ascii_alphanumeric() || c == '_')).take(8) {
                    if tried >= 40 {
                        break;
                    }
                    tried += 1;
                    let new_src = format!("{}{}{}", &src[..t.start], sg.name, &src[t.end..]);
                    let res = crate::worker::guarded(|| vm.typecheck_str(&format!("{}_lit{}", name, tried), &new_src, None).map(|_| ()).map_err(|e| e.to_string()));
                    r.stat("suggestions_scope_checked", 1);
                    match res {
                        Ok(Err(msg)) => {
                            if msg.contains(&format!("Undefined variable `{}`", sg.name)) {
                                let mut v = CaseResult::violation(
                                    h,
                                    format!("`{}` is suggested at byte {} (on the literal `{}`) but is not in scope there: the checker says Undefined variable\n--- program\n{}", sg.name, t.start, &src[t.start..t.end], src),
                                    json!({"kind": "suggestion-not-in-scope"}),
                                );
                                v.stats = r.stats;
                                return v;
                            }
                        }
                        Ok(Ok(())) => {}
                        Err(_) => {
                            self.vm = None;
                            return r;
                        }
                    }
                }
            }
        }
        r
    }
}
