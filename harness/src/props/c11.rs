//! C11 — marshalling between Rust and Gluon is lossless and type-faithful. A family of Rust types
//! closed under Option / Result / Vec / tuples / BTreeMap / derived structs and enums; every value
//! goes through four routes (direct marshal, a Gluon identity function, a Gluon observer
//! computing a fingerprint, the serde bridge) and every global is requested at every other type
//! of the family, which must be refused unless the Gluon types coincide.
use crate::prop::*;
use crate::rng::{hash_str, Rng};
use crate::vmutil::*;
use gluon::import::add_extern_module;
use gluon::vm::api::de::De;
use gluon::vm::api::ser::Ser;
use gluon::vm::api::{FunctionRef, Getable, Pushable, VmType};
use gluon::vm::thread::RootedValue;
use gluon::vm::ExternModule;
use gluon::{record, RootedThread, Thread, ThreadExt};
use gluon_codegen::{Getable, Pushable, VmType};
use serde_derive::{Deserialize, Serialize};
use serde_json::{json, Value};
use std::collections::BTreeMap;

pub struct C11;

impl Prop for C11 {
    fn id(&self) -> &'static str {
        "C11"
    }
    fn rule(&self) -> &'static str {
        "a family of 40 Rust types (i64, i32, u8, f64, f32, bool, char, String, (), Option / Result / Vec / tuple / BTreeMap<String,_> nestings to depth 3, derived struct P {x: i64, y: f64}, derived struct Q {name, items: Vec<P>, opt: Option<P>}, derived enum E {A, B(i64), C(String, f64), D(P)} and containers of them); values: boundary values (i64::MIN/MAX, +-0.0, NaN with payload, infinities, empty and multi-byte strings, empty containers) and random ones; routes per value: (1) Pushable then Getable, (2) through the Gluon function `\\x -> x` called at fn(T) -> T, (3) a Gluon observer generated from the type that folds the value into an Int fingerprint which must equal the fingerprint computed in Rust, (4) the serde bridge Ser -> De; floats compared bitwise; mismatch matrix: a global of type T requested at every other type U of the family must be refused with an error unless T and U have the same Gluon type (a panic counts as granted); ASan phase; non-trivial = the type is a container or derived type; distinct = (type, value)"
    }
    fn phases(&self, tier: Tier) -> Vec<Phase> {
        vec![
            Phase::new("values", tier.pick(6000, 150_000)).min_cases(tier.pick(2000, 30_000)).timeouts(120, tier.pick(400, 3000)),
            Phase::new("mismatch-matrix", NTYPES as u64).exhaustive(true).min_cases(NTYPES as u64).timeouts(300, 900),
            Phase::new("values-asan", tier.pick(500, 2500)).build(Build::Asan).min_cases(tier.pick(150, 500)).timeouts(240, tier.pick(400, 3000)),
        ]
    }
    fn worker(&self, ctx: &WorkerCtx) -> Box<dyn Worker> {
        crate::worker::set_cpu_budget(120.0);
        Box::new(W { matrix: ctx.phase == "mismatch-matrix", vm: None, uses: 0 })
    }
}

const M: i64 = 1_000_003;

fn m(x: i64) -> i64 {
    x.rem_euclid(M)
}

// ---------------------------------------------------------------------------------------------
// the family

pub trait Fam: Sized + Clone + std::fmt::Debug + Send + Sync + 'static {
    fn gen(rng: &mut Rng, depth: u32) -> Self;
    /// equality with floats compared by bits
    fn same(&self, other: &Self) -> bool;
    /// Gluon expression of type `T -> Int` (may use `m`, `array`, `string`, `map`, `int`, `char`)
    fn obs() -> String;
    fn fp(&self) -> i64;
    fn tname() -> String;
    fn container() -> bool {
        true
    }
    /// types for which the untyped `Ser` bridge builds the value its Gluon type promises
    fn serde_supported() -> bool {
        false
    }
}

macro_rules! int_fam {
    ($t:ty, $bounds:expr) => {
        impl Fam for $t {
            fn gen(rng: &mut Rng, _d: u32) -> Self {
                let b: &[$t] = &$bounds;
                if rng.chance(1, 2) {
                    *rng.pick(b)
                } else {
                    rng.next() as $t
                }
            }
            fn same(&self, o: &Self) -> bool {
                self == o
            }
            fn obs() -> String {
                "(\\x -> m x)".into()
            }
            fn fp(&self) -> i64 {
                m(*self as i64)
            }
            fn tname() -> String {
                stringify!($t).into()
            }
            fn container() -> bool {
                false
            }
            fn serde_supported() -> bool {
                true
            }
        }
    };
}
int_fam!(i64, [0, 1, -1, i64::MIN, i64::MAX, 255, 256, -256, 1 << 32, (1 << 53) + 1]);
int_fam!(i32, [0, 1, -1, i32::MIN, i32::MAX, 65536]);

impl Fam for u8 {
    fn gen(rng: &mut Rng, _d: u32) -> Self {
        *rng.pick(&[0u8, 1, 127, 128, 255, 65])
    }
    fn same(&self, o: &Self) -> bool {
        self == o
    }
    fn obs() -> String {
        "(\\x -> int.from_byte x)".into()
    }
    fn fp(&self) -> i64 {
        *self as i64
    }
    fn tname() -> String {
        "u8".into()
    }
    fn container() -> bool {
        false
    }
}

fn float_class(x: f64) -> i64 {
    if x < 0.0 {
        1
    } else if x == 0.0 {
        2
    } else if x > 0.0 {
        3
    } else {
        4
    }
}

impl Fam for f64 {
    fn gen(rng: &mut Rng, _d: u32) -> Self {
        let b = [0.0, -0.0, 1.5, -2.25, f64::MAX, f64::MIN, f64::MIN_POSITIVE, f64::INFINITY, f64::NEG_INFINITY, f64::NAN, f64::from_bits(0x7ff8_0000_dead_beef), f64::from_bits(0xfff0_0000_0000_0001), 1e-320];
        if rng.chance(2, 3) {
            *rng.pick(&b)
        } else {
            f64::from_bits(rng.next())
        }
    }
    fn same(&self, o: &Self) -> bool {
        self.to_bits() == o.to_bits()
    }
    fn obs() -> String {
        "(\\x -> if x #Float< 0.0 then 1 else if x #Float== 0.0 then 2 else if 0.0 #Float< x then 3 else 4)".into()
    }
    fn fp(&self) -> i64 {
        float_class(*self)
    }
    fn tname() -> String {
        "f64".into()
    }
    fn container() -> bool {
        false
    }
    fn serde_supported() -> bool {
        true
    }
}

impl Fam for f32 {
    fn gen(rng: &mut Rng, _d: u32) -> Self {
        let b = [0.0f32, -0.0, 1.5, f32::MAX, f32::MIN_POSITIVE, f32::INFINITY, f32::NEG_INFINITY, 0.1];
        *rng.pick(&b)
    }
    fn same(&self, o: &Self) -> bool {
        self.to_bits() == o.to_bits()
    }
    fn obs() -> String {
        f64::obs()
    }
    fn fp(&self) -> i64 {
        float_class(*self as f64)
    }
    fn tname() -> String {
        "f32".into()
    }
    fn container() -> bool {
        false
    }
    fn serde_supported() -> bool {
        true
    }
}

impl Fam for bool {
    fn gen(rng: &mut Rng, _d: u32) -> Self {
        rng.chance(1, 2)
    }
    fn same(&self, o: &Self) -> bool {
        self == o
    }
    fn obs() -> String {
        "(\\x -> if x then 1 else 0)".into()
    }
    fn fp(&self) -> i64 {
        *self as i64
    }
    fn tname() -> String {
        "bool".into()
    }
    fn container() -> bool {
        false
    }
    fn serde_supported() -> bool {
        true
    }
}

impl Fam for char {
    fn gen(rng: &mut Rng, _d: u32) -> Self {
        *rng.pick(&['a', '\0', '\n', 'é', '日', '\u{10FFFF}', '\u{1F600}', ' ', '\u{D7FF}', '\u{E000}'])
    }
    fn same(&self, o: &Self) -> bool {
        self == o
    }
    fn obs() -> String {
        "(\\x -> m (char.to_int x))".into()
    }
    fn fp(&self) -> i64 {
        m(*self as i64)
    }
    fn tname() -> String {
        "char".into()
    }
    fn container() -> bool {
        false
    }
}

impl Fam for String {
    fn gen(rng: &mut Rng, _d: u32) -> Self {
        let b = ["", "a", "hello world", "åäö", "日本語", "\u{1F600}x", "nul\0byte", "line\nbreak", "\"quoted\"", "0123456789012345678901234567890123456789"];
        if rng.chance(3, 4) {
            rng.pick(&b).to_string()
        } else {
            (0..rng.below(20)).map(|_| *rng.pick(&['a', 'ß', '語', ' ', '\t', 'z'])).collect()
        }
    }
    fn same(&self, o: &Self) -> bool {
        self == o
    }
    fn obs() -> String {
        "(\\x -> string.len x)".into()
    }
    fn fp(&self) -> i64 {
        self.len() as i64
    }
    fn tname() -> String {
        "String".into()
    }
    fn container() -> bool {
        false
    }
    fn serde_supported() -> bool {
        true
    }
}

impl Fam for () {
    fn gen(_: &mut Rng, _d: u32) -> Self {}
    fn same(&self, _: &Self) -> bool {
        true
    }
    fn obs() -> String {
        "(\\x -> 0)".into()
    }
    fn fp(&self) -> i64 {
        0
    }
    fn tname() -> String {
        "()".into()
    }
    fn container() -> bool {
        false
    }
    fn serde_supported() -> bool {
        true
    }
}

impl<T: Fam> Fam for Option<T> {
    fn gen(rng: &mut Rng, d: u32) -> Self {
        if rng.chance(1, 3) {
            None
        } else {
            Some(T::gen(rng, d.saturating_sub(1)))
        }
    }
    fn same(&self, o: &Self) -> bool {
        match (self, o) {
            (None, None) => true,
            (Some(a), Some(b)) => a.same(b),
            _ => false,
        }
    }
    fn obs() -> String {
        format!("(\\o -> opt_case o 0 (\\y -> m (1 #Int+ 7 #Int* {} y)))", T::obs())
    }
    fn fp(&self) -> i64 {
        match self {
            Some(y) => m(1 + 7 * y.fp()),
            None => 0,
        }
    }
    fn tname() -> String {
        format!("Option<{}>", T::tname())
    }
}

impl<T: Fam, E: Fam> Fam for Result<T, E> {
    fn gen(rng: &mut Rng, d: u32) -> Self {
        if rng.chance(1, 2) {
            Ok(T::gen(rng, d.saturating_sub(1)))
        } else {
            Err(E::gen(rng, d.saturating_sub(1)))
        }
    }
    fn same(&self, o: &Self) -> bool {
        match (self, o) {
            (Ok(a), Ok(b)) => a.same(b),
            (Err(a), Err(b)) => a.same(b),
            _ => false,
        }
    }
    fn obs() -> String {
        format!("(\\r -> res_case r (\\y -> m (2 #Int+ 5 #Int* {} y)) (\\e -> m (3 #Int+ 11 #Int* {} e)))", T::obs(), E::obs())
    }
    fn fp(&self) -> i64 {
        match self {
            Ok(y) => m(2 + 5 * y.fp()),
            Err(e) => m(3 + 11 * e.fp()),
        }
    }
    fn tname() -> String {
        format!("Result<{},{}>", T::tname(), E::tname())
    }
}

impl<T: Fam> Fam for Vec<T> {
    fn gen(rng: &mut Rng, d: u32) -> Self {
        let n = *rng.pick(&[0usize, 0, 1, 2, 3, 7, 33]);
        (0..n).map(|_| T::gen(rng, d.saturating_sub(1))).collect()
    }
    fn same(&self, o: &Self) -> bool {
        self.len() == o.len() && self.iter().zip(o.iter()).all(|(a, b)| a.same(b))
    }
    fn obs() -> String {
        format!("(\\a -> array.foldable.foldl (\\acc y -> m (acc #Int* 31 #Int+ {} y)) (array.len a) a)", T::obs())
    }
    fn fp(&self) -> i64 {
        let mut acc = self.len() as i64;
        for y in self {
            acc = m(acc * 31 + y.fp());
        }
        acc
    }
    fn tname() -> String {
        format!("Vec<{}>", T::tname())
    }
}

impl<A: Fam, B: Fam> Fam for (A, B) {
    fn gen(rng: &mut Rng, d: u32) -> Self {
        (A::gen(rng, d.saturating_sub(1)), B::gen(rng, d.saturating_sub(1)))
    }
    fn same(&self, o: &Self) -> bool {
        self.0.same(&o.0) && self.1.same(&o.1)
    }
    fn obs() -> String {
        format!("(\\t -> m ({} t._0 #Int* 13 #Int+ {} t._1))", A::obs(), B::obs())
    }
    fn fp(&self) -> i64 {
        m(self.0.fp() * 13 + self.1.fp())
    }
    fn tname() -> String {
        format!("({},{})", A::tname(), B::tname())
    }
    fn serde_supported() -> bool {
        A::serde_supported() && B::serde_supported()
    }
}

impl<A: Fam, B: Fam, C: Fam> Fam for (A, B, C) {
    fn gen(rng: &mut Rng, d: u32) -> Self {
        (A::gen(rng, d.saturating_sub(1)), B::gen(rng, d.saturating_sub(1)), C::gen(rng, d.saturating_sub(1)))
    }
    fn same(&self, o: &Self) -> bool {
        self.0.same(&o.0) && self.1.same(&o.1) && self.2.same(&o.2)
    }
    fn obs() -> String {
        format!("(\\t -> m (m ({} t._0 #Int* 13 #Int+ {} t._1) #Int* 17 #Int+ {} t._2))", A::obs(), B::obs(), C::obs())
    }
    fn fp(&self) -> i64 {
        m(m(self.0.fp() * 13 + self.1.fp()) * 17 + self.2.fp())
    }
    fn tname() -> String {
        format!("({},{},{})", A::tname(), B::tname(), C::tname())
    }
    fn serde_supported() -> bool {
        A::serde_supported() && B::serde_supported() && C::serde_supported()
    }
}

impl<T: Fam> Fam for BTreeMap<String, T> {
    fn gen(rng: &mut Rng, d: u32) -> Self {
        let n = *rng.pick(&[0usize, 1, 2, 5, 17]);
        let mut mp = BTreeMap::new();
        for i in 0..n {
            let k = match rng.below(4) {
                0 => format!("k{}", i),
                1 => format!("{}é", i),
                2 => String::new(),
                _ => format!("key with spaces {}", rng.below(3)),
            };
            mp.insert(k, T::gen(rng, d.saturating_sub(1)));
        }
        mp
    }
    fn same(&self, o: &Self) -> bool {
        self.len() == o.len() && self.iter().zip(o.iter()).all(|((k1, a), (k2, b))| k1 == k2 && a.same(b))
    }
    fn obs() -> String {
        // keys in ascending order, like BTreeMap's iteration
        format!("(\\mp -> map.foldl_with_key (\\acc k v -> m (m (acc #Int* 31 #Int+ string.len k) #Int* 7 #Int+ {} v)) 5 mp)", T::obs())
    }
    fn fp(&self) -> i64 {
        let mut acc = 5i64;
        for (k, v) in self {
            acc = m(m(acc * 31 + k.len() as i64) * 7 + v.fp());
        }
        acc
    }
    fn tname() -> String {
        format!("BTreeMap<String,{}>", T::tname())
    }
}

#[derive(Clone, Debug, VmType, Pushable, Getable, Serialize, Deserialize)]
#[gluon(vm_type = "c11types.P")]
pub struct P {
    x: i64,
    y: f64,
}

#[derive(Clone, Debug, VmType, Pushable, Getable, Serialize, Deserialize)]
#[gluon(vm_type = "c11types.Q")]
pub struct Q {
    name: String,
    items: Vec<P>,
    opt: Option<P>,
}

#[derive(Clone, Debug, VmType, Pushable, Getable, Serialize, Deserialize)]
#[gluon(vm_type = "c11types.E")]
pub enum E {
    A,
    B(i64),
    C(String, f64),
    D(P),
}

const TYPES_MODULE: &str = "let { Option } = import! std.types\ntype P = { x : Int, y : Float }\ntype Q = { name : String, items : Array P, opt : Option P }\ntype E = | A | B Int | C String Float | D P\n{ P, Q, E }\n";

impl Fam for P {
    fn gen(rng: &mut Rng, d: u32) -> Self {
        P { x: i64::gen(rng, d), y: f64::gen(rng, d) }
    }
    fn same(&self, o: &Self) -> bool {
        self.x == o.x && self.y.same(&o.y)
    }
    fn obs() -> String {
        format!("(\\p -> m ({} p.x #Int* 3 #Int+ {} p.y))", i64::obs(), f64::obs())
    }
    fn fp(&self) -> i64 {
        m(self.x.fp() * 3 + self.y.fp())
    }
    fn tname() -> String {
        "P".into()
    }
    fn serde_supported() -> bool {
        true
    }
}

impl Fam for Q {
    fn gen(rng: &mut Rng, d: u32) -> Self {
        Q { name: String::gen(rng, d), items: Vec::<P>::gen(rng, d), opt: Option::<P>::gen(rng, d) }
    }
    fn same(&self, o: &Self) -> bool {
        self.name == o.name && self.items.same(&o.items) && self.opt.same(&o.opt)
    }
    fn obs() -> String {
        format!("(\\q -> m (m ({} q.name #Int* 3 #Int+ {} q.items) #Int* 5 #Int+ {} q.opt))", String::obs(), Vec::<P>::obs(), Option::<P>::obs())
    }
    fn fp(&self) -> i64 {
        m(m(self.name.fp() * 3 + self.items.fp()) * 5 + self.opt.fp())
    }
    fn tname() -> String {
        "Q".into()
    }
}

impl Fam for E {
    fn gen(rng: &mut Rng, d: u32) -> Self {
        match rng.below(4) {
            0 => E::A,
            1 => E::B(i64::gen(rng, d)),
            2 => E::C(String::gen(rng, d), f64::gen(rng, d)),
            _ => E::D(P::gen(rng, d)),
        }
    }
    fn same(&self, o: &Self) -> bool {
        match (self, o) {
            (E::A, E::A) => true,
            (E::B(a), E::B(b)) => a == b,
            (E::C(a, x), E::C(b, y)) => a == b && x.same(y),
            (E::D(a), E::D(b)) => a.same(b),
            _ => false,
        }
    }
    fn obs() -> String {
        format!("(\\e -> e_case e 1 (\\i -> m (2 #Int+ 3 #Int* {} i)) (\\s f -> m (3 #Int+ 5 #Int* {} s #Int+ {} f)) (\\p -> m (4 #Int+ 7 #Int* {} p)))", i64::obs(), String::obs(), f64::obs(), P::obs())
    }
    fn fp(&self) -> i64 {
        match self {
            E::A => 1,
            E::B(i) => m(2 + 3 * i.fp()),
            E::C(s, f) => m(3 + 5 * s.fp() + f.fp()),
            E::D(p) => m(4 + 7 * p.fp()),
        }
    }
    fn tname() -> String {
        "E".into()
    }
    fn serde_supported() -> bool {
        true
    }
}

// ---------------------------------------------------------------------------------------------
// per-type drivers (monomorphised), collected in a registry

const OBS_PRELUDE: &str = "let array = import! std.array\nlet string = import! std.string\nlet map = import! std.map\nlet int = import! std.int\nlet char = import! std.char\nlet { Option, Result } = import! std.types\nlet { P, Q, E } = import! c11types\nlet m x : Int -> Int = int.rem_euclid x 1000003\nlet opt_case o n s =\n    match o with\n    | Some y -> s y\n    | None -> n\nlet res_case r ok er =\n    match r with\n    | Ok y -> ok y\n    | Err e -> er e\nlet e_case e a b c d =\n    match e with\n    | A -> a\n    | B i -> b i\n    | C s f -> c s f\n    | D p -> d p\n";

trait Marshal: Fam + VmType + for<'vm> Pushable<'vm> + for<'vm, 'value> Getable<'vm, 'value> + serde::Serialize + for<'de> serde::Deserialize<'de>
where
    <Self as VmType>::Type: Sized,
{
}
impl<T> Marshal for T
where
    T: Fam + VmType + for<'vm> Pushable<'vm> + for<'vm, 'value> Getable<'vm, 'value> + serde::Serialize + for<'de> serde::Deserialize<'de>,
    <T as VmType>::Type: Sized,
{
}

fn run_values<T: Marshal>(vm: &RootedThread, rng: &mut Rng, h: u64) -> CaseResult
where
    <T as VmType>::Type: Sized,
{
    let mut r = CaseResult::ok(h, T::container());
    let tname = T::tname();
    let sig = |route: &str, kind: &str| json!({"kind": kind, "route": route, "type": tname});
    let v = T::gen(rng, 3);
    let dbg = std::env::var("GV_DBG").is_ok();
    if dbg {
        eprintln!("value {:?}", v);
    }
    // ---- route 1: push, then get
    let rooted: Result<RootedValue<RootedThread>, _> = v.clone().marshal(vm);
    match rooted {
        Ok(rv) => {
            let back = T::from_value(vm, rv.get_variant());
            if !back.same(&v) {
                return CaseResult::violation(h, format!("{}: pushed {:?}, got back {:?}", tname, v, back), sig("direct", "value-changed"));
            }
        }
        Err(e) => return CaseResult::violation(h, format!("{}: pushing {:?} failed: {}", tname, v, e), sig("direct", "push-refused")),
    }
    r.stat("direct_round_trips", 1);
    if dbg {
        eprintln!("route1 ok");
    }
    // ---- route 2: through a Gluon identity function
    let idf = vm.run_expr::<FunctionRef<fn(T) -> T>>("c11_id", "\\x -> x");
    match idf {
        Ok((mut f, _)) => match f.call(v.clone()) {
            Ok(back) => {
                if !back.same(&v) {
                    return CaseResult::violation(h, format!("{}: the Gluon identity function returned {:?} for {:?}", tname, back, v), sig("identity-function", "value-changed"));
                }
            }
            Err(e) => return CaseResult::violation(h, format!("{}: calling the identity function with {:?} failed: {}", tname, v, e), sig("identity-function", "call-failed")),
        },
        Err(e) => return CaseResult::violation(h, format!("{}: `\\x -> x` is refused at fn(T) -> T: {}", tname, e), sig("identity-function", "refused")),
    }
    r.stat("identity_function_round_trips", 1);
    if dbg {
        eprintln!("route2 ok");
    }
    // ---- route 3: the Gluon side observes the corresponding value
    let obs_src = format!("{}{}\n", OBS_PRELUDE, T::obs());
    let name = format!("c11_obs_{:x}", hash_str(&tname));
    match vm.run_expr::<FunctionRef<fn(T) -> i64>>(&name, &obs_src) {
        Ok((mut f, _)) => match f.call(v.clone()) {
            Ok(fp) => {
                if fp != v.fp() {
                    return CaseResult::violation(h, format!("{}: Gluon code folds {:?} to {} but the Rust value folds to {}", tname, v, fp, v.fp()), sig("observer", "gluon-sees-another-value"));
                }
            }
            Err(e) => return CaseResult::violation(h, format!("{}: the observer failed on {:?}: {}", tname, v, e), sig("observer", "call-failed")),
        },
        Err(e) => return CaseResult::inconclusive(h, format!("{}: observer program rejected: {}", tname, e.to_string().lines().next().unwrap_or(""))),
    }
    r.stat("observer_calls", 1);
    if dbg {
        eprintln!("route3 ok");
    }
    // ---- route 4: the serde bridge. `Ser` must build the same Gluon value as `Pushable` (graph
    // shape from the hook, no addresses); only then is it read back with `De` and observed
    let sig4 = |kind: &str| json!({"kind": kind, "route": "serde", "type": tname, "serde_supported": T::serde_supported(), "has_tuple": tname.replace("()", "").contains('(')});
    let by_push: Result<RootedValue<RootedThread>, _> = v.clone().marshal(vm);
    let by_ser: Result<RootedValue<RootedThread>, _> = Ser(v.clone()).marshal(vm);
    match (by_push, by_ser) {
        (Ok(a), Ok(b)) => {
            let (sa, sb) = (gluon::vm::verif::value_shape(a.get_variant()), gluon::vm::verif::value_shape(b.get_variant()));
            // unit carries no information: `Pushable` writes it as the integer 0, `Ser` as tag 0
            if sa != sb && tname != "()" {
                return CaseResult::violation(h, format!("{}: Ser({:?}) builds the value `{}`, Pushable builds `{}`", tname, v, clip(&sb), clip(&sa)), sig4("serde-builds-another-value"));
            }
            if !T::serde_supported() {
                // the shapes coincide by accident (an empty container): reading it back with `De`
                // at a type `Ser` does not honour is the listed finding F54, not run again here
                r.stat("serde_shapes_coincide_on_unsupported_type", 1);
                r.feat(format!("type:{}", tname));
                return r;
            }
            let back = match crate::worker::guarded(|| De::<T>::from_value(vm, b.get_variant()).0) {
                Ok(b) => b,
                Err((loc, msg)) => return CaseResult::violation(h, format!("{}: De panicked on Ser({:?}) at {}: {}", tname, v, loc, msg.lines().next().unwrap_or("")), sig4("de-panicked")),
            };
            if !back.same(&v) {
                return CaseResult::violation(h, format!("{}: Ser then De turned {:?} into {:?}", tname, v, back), sig4("value-changed"));
            }
            match vm.run_expr::<FunctionRef<fn(Ser<T>) -> i64>>(&name, &obs_src) {
                Ok((mut f, _)) => match f.call(Ser(v.clone())) {
                    Ok(fp) if fp == v.fp() => {}
                    Ok(fp) => return CaseResult::violation(h, format!("{}: Gluon code folds Ser({:?}) to {} but the Rust value folds to {}", tname, v, fp, v.fp()), sig4("gluon-sees-another-value")),
                    Err(e) => return CaseResult::violation(h, format!("{}: the observer failed on Ser({:?}): {}", tname, v, e), sig4("call-failed")),
                },
                Err(_) => {}
            }
        }
        (_, Err(e)) => return CaseResult::violation(h, format!("{}: Ser({:?}) failed: {}", tname, v, e), sig4("ser-refused")),
        (Err(e), _) => return CaseResult::violation(h, format!("{}: pushing {:?} failed: {}", tname, v, e), sig("direct", "push-refused")),
    }
    r.stat("serde_round_trips", 1);
    r.feat(format!("type:{}", tname));
    r
}

/// defines an extern module `name` whose field `v` is a value of T
fn define<T: Marshal>(vm: &Thread, name: &str, rng: &mut Rng)
where
    <T as VmType>::Type: Sized,
{
    let v = T::gen(rng, 2);
    add_extern_module(vm, name, move |vm: &Thread| ExternModule::new(vm, record! { v => v.clone() }));
}

fn type_text<T: Marshal>(vm: &Thread) -> String
where
    <T as VmType>::Type: Sized,
{
    T::make_type(vm).to_string()
}

/// Ok(()) = refused, Err(description) = granted (or panicked)
fn request<T: Marshal>(vm: &Thread, global: &str) -> Result<(), String>
where
    <T as VmType>::Type: Sized,
{
    match crate::worker::guarded(|| vm.get_global::<T>(global).map(|v| format!("{:?}", v)).map_err(|e| e.to_string())) {
        Ok(Ok(v)) => Err(format!("granted, read as {}", crate::props::c11::clip(&v))),
        Ok(Err(_)) => Ok(()),
        Err((loc, msg)) => Err(format!("panicked at {}: {}", loc, msg.lines().next().unwrap_or(""))),
    }
}

pub fn clip(s: &str) -> String {
    s.chars().take(120).collect()
}

struct Entry {
    name: String,
    values: fn(&RootedThread, &mut Rng, u64) -> CaseResult,
    define: fn(&Thread, &str, &mut Rng),
    type_text: fn(&Thread) -> String,
    request: fn(&Thread, &str) -> Result<(), String>,
}

macro_rules! registry {
    ($($t:ty),* $(,)?) => {
        fn registry() -> Vec<Entry> {
            vec![$(Entry { name: <$t as Fam>::tname(), values: run_values::<$t>, define: define::<$t>, type_text: type_text::<$t>, request: request::<$t> }),*]
        }
        const NTYPES: usize = [$(stringify!($t)),*].len();
    };
}

registry!(
    i64,
    i32,
    u8,
    f64,
    f32,
    bool,
    char,
    String,
    (),
    Option<i64>,
    Option<String>,
    Option<Option<i64>>,
    Option<f64>,
    Result<i64, String>,
    Result<String, f64>,
    Result<Option<i64>, Vec<u8>>,
    Vec<i64>,
    Vec<u8>,
    Vec<f64>,
    Vec<String>,
    Vec<bool>,
    Vec<char>,
    Vec<Vec<i64>>,
    Vec<Option<i64>>,
    Vec<(i64, String)>,
    Vec<()>,
    (i64, f64),
    (String, bool, u8),
    (Vec<i64>, Option<String>),
    BTreeMap<String, i64>,
    BTreeMap<String, Vec<String>>,
    Option<BTreeMap<String, f64>>,
    P,
    Q,
    E,
    Option<E>,
    Vec<E>,
    Vec<P>,
    Result<E, P>,
    (P, Vec<Q>),
);

struct W {
    matrix: bool,
    vm: Option<RootedThread>,
    uses: u32,
}

fn mk_vm() -> Result<RootedThread, String> {
    let mut s = Settings::PLAIN;
    s.prelude = true;
    let vm = vm_with(s);
    vm.load_script("c11types", TYPES_MODULE).map_err(|e| format!("types module: {}", e))?;
    vm.run_expr::<()>("c11_warm", "let _ = import! std.map\nlet _ = import! std.array\nlet _ = import! std.string\nlet _ = import! std.int\nlet _ = import! std.char\n()").map_err(|e| format!("warm-up: {}", e))?;
    Ok(vm)
}

impl Worker for W {
    fn gen(&mut self, rng: &mut Rng, idx: u64) -> Option<Value> {
        if self.matrix {
            return Some(json!({"type": idx, "seed": rng.next() >> 1}));
        }
        Some(json!({"type": rng.below(NTYPES), "seed": rng.next() >> 1}))
    }

    fn run(&mut self, case: &Value) -> CaseResult {
        let reg = registry();
        let ti = case["type"].as_u64().unwrap_or(0) as usize % reg.len();
        let seed = case["seed"].as_u64().unwrap_or(1);
        let h = hash_str(&format!("{}:{}", ti, seed));
        if self.vm.is_none() || self.uses > 300 {
            match mk_vm() {
                Ok(vm) => self.vm = Some(vm),
                Err(e) => return CaseResult::inconclusive(h, e),
            }
            self.uses = 0;
        }
        self.uses += 1;
        let vm = self.vm.as_ref().unwrap().clone();
        let mut rng = Rng::new(seed);
        crate::worker::note_key(&json!({"type": reg[ti].name}));
        if !self.matrix {
            let r = (reg[ti].values)(&vm, &mut rng, h);
            if r.verdict != Verdict::Ok {
                self.vm = None;
            }
            return r;
        }
        // ---- mismatch matrix row: a global of type T requested at every type of the family
        let module = format!("c11g{}_{:x}", ti, seed & 0xffff);
        (reg[ti].define)(&vm, &module, &mut rng);
        if let Err(e) = vm.run_expr::<()>(&format!("{}_imp", module), &format!("let _ = import! {}\n()", module)) {
            return CaseResult::inconclusive(h, format!("extern module not importable: {}", e));
        }
        let global = format!("{}.v", module);
        let t_text = (reg[ti].type_text)(&vm);
        let mut r = CaseResult::ok(h, true);
        for (ui, u) in reg.iter().enumerate() {
            let u_text = (u.type_text)(&vm);
            let res = (u.request)(&vm, &global);
            r.stat("requests", 1);
            if u_text == t_text {
                // same Gluon type: must be granted
                if res.is_ok() && ui == ti {
                    return CaseResult::violation(h, format!("a global of type {} is refused at its own type", reg[ti].name), json!({"kind": "own-type-refused", "type": reg[ti].name}));
                }
                r.stat("requests_at_matching_type", 1);
            } else {
                match res {
                    Ok(()) => {
                        r.stat("mismatching_requests_refused", 1);
                    }
                    Err(how) => {
                        self.vm = None;
                        return CaseResult::violation(
                            h,
                            format!("a global of Gluon type `{}` (Rust {}) requested at Rust type {} (Gluon `{}`) is not refused: {}", t_text, reg[ti].name, u.name, u_text, how),
                            json!({"kind": "mismatching-request-granted", "global": reg[ti].name, "requested": u.name}),
                        );
                    }
                }
            }
        }
        r.feat(format!("type:{}", reg[ti].name));
        r
    }
}

pub fn dbg_main(args: &[String]) {
    crate::worker::install_panic_hook();
    let reg = registry();
    let want = args.get(0).cloned().unwrap_or_default();
    let seed: u64 = args.get(1).and_then(|s| s.parse().ok()).unwrap_or(1);
    let vm = mk_vm().unwrap();
    for e in reg.iter().filter(|e| e.name == want) {
        for k in 0..12 {
            let mut rng = Rng::new(seed + k);
            let r = (e.values)(&vm, &mut rng, 0);
            println!("{} seed {}: {:?} {}", e.name, seed + k, r.verdict, r.msg.chars().take(400).collect::<String>());
        }
    }
}
