//! C19 — standard library structures, codecs and derived instances obey their models: Gluon
//! driver functions (c19_driver.glu) are loaded once per VM and called from Rust with generated
//! inputs; every answer is compared with the Rust std model (BTreeMap, slice::sort, str, serde_json).
use crate::prop::*;
use crate::rng::{hash_str, Rng};
use crate::vmutil::*;
use gluon::vm::api::FunctionRef;
use gluon::{RootedThread, ThreadExt};
use serde_json::{json, Value};
use std::collections::BTreeMap;

pub struct C19;

const DRIVER: &str = include_str!("c19_driver.glu");

impl Prop for C19 {
    fn id(&self) -> &'static str {
        "C19"
    }
    fn rule(&self) -> &'static str {
        "families (one driver call each): std.map under operation sequences of 0-200 inserts / finds over a small colliding key set (String keys and Int keys) vs BTreeMap (find answers, keys in order, values); list.sort / list.filter / list <> / list folds and array <> / slice / index / functor map / folds / Ord / Eq vs Vec and slice definitions; std.string len / is_empty / contains / starts_with / ends_with / find / rfind / trim* / <> / compare / split_at / slice / char_at / as_bytes vs str (multi-byte strings, indices on char boundaries); JSON: a record type with derived Serialize / Deserialize (ints, strings with escapes and non-ASCII, floats, bools, options, arrays, nested records): deserialize then serialize must parse (serde_json) to the original value; derived Eq must equal structural equality of the parsed values and derived Show must render equal values equally and different values differently; non-trivial = the input is non-empty; distinct = (family, input)"
    }
    fn phases(&self, tier: Tier) -> Vec<Phase> {
        vec![Phase::new("drivers", tier.pick(60_000, 4_000_000)).min_cases(tier.pick(20_000, 800_000)).timeouts(120, tier.pick(400, 3000))]
    }
    fn worker(&self, _ctx: &WorkerCtx) -> Box<dyn Worker> {
        crate::worker::set_cpu_budget(120.0);
        Box::new(W { vm: None, uses: 0 })
    }
}

struct W {
    vm: Option<RootedThread>,
    uses: u32,
}

fn mk_vm() -> Result<RootedThread, String> {
    let mut s = Settings::PLAIN;
    s.prelude = true;
    let vm = vm_with(s);
    vm.load_script("c19drv", DRIVER).map_err(|e| format!("driver module rejected: {}", e))?;
    Ok(vm)
}

const KEYS: &[&str] = &["a", "b", "ab", "", "z", "é", "aa", "B", "日本", "k10", "k9", "k"];
const STRS: &[&str] = &["", "a", " héllo ", "\t x\n", "日本語テキスト", "abcabc", "l", "bc", "ab", "😀", "a😀b", "  ", "ÅÄÖ åäö", "x\u{301}y", "\u{a0}nbsp\u{a0}"];

fn gen_ints(rng: &mut Rng, max: usize, lo: i64, hi: i64) -> Vec<i64> {
    let n = *rng.pick(&[0usize, 1, 2, 3, 8, 30]).min(&max);
    (0..n).map(|_| rng.range(lo, hi)).collect()
}

fn gen_rec(rng: &mut Rng) -> Value {
    let s = |rng: &mut Rng| -> String { rng.pick(&["", "x", "q\"uote", "back\\slash", "line\nbreak", "tab\t", "åäö", "日本", "😀", "\u{1}ctl", "/slash", "a b"]).to_string() };
    let inner = |rng: &mut Rng| json!({"n": rng.range(-5, 5), "t": s(rng)});
    let f = *rng.pick(&[0.0, 1.5, -2.25, 1e10, 1e-7, 123456.789, -0.5, 3.0, 1e21, 2.5e-10]);
    let o = if rng.chance(1, 2) { Value::Null } else { json!(rng.range(-3, 3)) };
    let nx = rng.below(4);
    let ny = rng.below(3);
    json!({
        "a": *rng.pick(&[0i64, 1, -1, i64::MAX, i64::MIN, 42, 1 << 53]),
        "s": s(rng), "f": f, "b": rng.chance(1, 2), "o": o,
        "xs": (0..nx).map(|_| s(rng)).collect::<Vec<_>>(),
        "inner": inner(rng),
        "ys": (0..ny).map(|_| inner(rng)).collect::<Vec<_>>(),
    })
}

fn json_same(a: &Value, b: &Value) -> bool {
    match (a, b) {
        (Value::Number(x), Value::Number(y)) => {
            if let (Some(i), Some(j)) = (x.as_i64(), y.as_i64()) {
                i == j
            } else {
                x.as_f64().map(|f| f.to_bits()) == y.as_f64().map(|f| f.to_bits()) || x.as_f64() == y.as_f64()
            }
        }
        (Value::Array(x), Value::Array(y)) => x.len() == y.len() && x.iter().zip(y.iter()).all(|(p, q)| json_same(p, q)),
        (Value::Object(x), Value::Object(y)) => x.len() == y.len() && x.iter().all(|(k, v)| y.get(k).map_or(false, |w| json_same(v, w))),
        _ => a == b,
    }
}

impl Worker for W {
    fn gen(&mut self, rng: &mut Rng, _idx: u64) -> Option<Value> {
        let fam = *rng.pick(&["map-str", "map-int", "sort", "list-array", "slice-index", "string-props", "string-index", "json", "eq-show"]);
        Some(json!({"family": fam, "seed": rng.next() >> 1, "key": {"family": fam}}))
    }

    fn run(&mut self, case: &Value) -> CaseResult {
        let fam = case["family"].as_str().unwrap_or("").to_string();
        let seed = case["seed"].as_u64().unwrap_or(1);
        let h = hash_str(&format!("{}:{}", fam, seed));
        if self.vm.is_none() || self.uses > 500 {
            match mk_vm() {
                Ok(vm) => self.vm = Some(vm),
                Err(e) => return CaseResult::inconclusive(h, e),
            }
            self.uses = 0;
        }
        self.uses += 1;
        let vm = self.vm.as_ref().unwrap().clone();
        let mut rng = Rng::new(seed);
        let mut r = CaseResult::ok(h, true);
        r.feat(format!("family:{}", fam));
        macro_rules! driver {
            ($name:expr, $t:ty) => {
                match vm.get_global::<FunctionRef<$t>>(concat!("c19drv.", $name)) {
                    Ok(f) => f,
                    Err(e) => return CaseResult::inconclusive(h, format!("driver {} not available at this type: {}", $name, e)),
                }
            };
        }
        macro_rules! call {
            ($e:expr, $what:expr) => {
                match $e {
                    Ok(v) => v,
                    Err(e) => {
                        self.vm = None;
                        return CaseResult::violation(h, format!("{}: the driver failed: {}", $what, e.to_string().lines().next().unwrap_or("")), json!({"kind": "driver-failed", "family": fam}));
                    }
                }
            };
        }
        let differs = |what: String| CaseResult::violation(h, what, json!({"kind": "differs-from-model", "family": fam}));
        match fam.as_str() {
            "map-str" | "map-int" => {
                let n = *rng.pick(&[0usize, 1, 3, 10, 40, 200]);
                let ops: Vec<i64> = (0..n).map(|_| if rng.chance(3, 5) { 0 } else { 1 }).collect();
                let vals: Vec<i64> = (0..n).map(|_| rng.range(0, 1000)).collect();
                if fam == "map-str" {
                    let keys: Vec<String> = (0..n).map(|_| rng.pick(KEYS).to_string()).collect();
                    let mut model: BTreeMap<String, i64> = BTreeMap::new();
                    let mut finds = Vec::new();
                    for i in 0..n {
                        if ops[i] == 0 {
                            model.insert(keys[i].clone(), vals[i]);
                        } else {
                            finds.push(model.get(&keys[i]).cloned().unwrap_or(-1));
                        }
                    }
                    let mut f = driver!("run_map_str", fn(Vec<i64>, Vec<String>, Vec<i64>) -> (Vec<i64>, Vec<String>, Vec<i64>));
                    let (gf, gk, gv) = call!(f.call(ops.clone(), keys.clone(), vals.clone()), "run_map_str");
                    let (mk, mv): (Vec<String>, Vec<i64>) = model.into_iter().unzip();
                    if gf != finds || gk != mk || gv != mv {
                        return differs(format!("std.map with String keys: ops {:?} keys {:?} vals {:?}: finds {:?} keys {:?} values {:?}, BTreeMap says finds {:?} keys {:?} values {:?}", ops, keys, vals, gf, gk, gv, finds, mk, mv));
                    }
                } else {
                    let keys: Vec<i64> = (0..n).map(|_| *rng.pick(&[0i64, 1, -1, 5, 5, 7, i64::MAX, i64::MIN, 100, 3])).collect();
                    let mut model: BTreeMap<i64, i64> = BTreeMap::new();
                    let mut finds = Vec::new();
                    for i in 0..n {
                        if ops[i] == 0 {
                            model.insert(keys[i], vals[i]);
                        } else {
                            finds.push(model.get(&keys[i]).cloned().unwrap_or(-1));
                        }
                    }
                    let mut f = driver!("run_map_int", fn(Vec<i64>, Vec<i64>, Vec<i64>) -> (Vec<i64>, Vec<i64>, Vec<i64>));
                    let (gf, gk, gv) = call!(f.call(ops.clone(), keys.clone(), vals.clone()), "run_map_int");
                    let (mk, mv): (Vec<i64>, Vec<i64>) = model.into_iter().unzip();
                    if gf != finds || gk != mk || gv != mv {
                        return differs(format!("std.map with Int keys: ops {:?} keys {:?} vals {:?}: finds {:?} keys {:?} values {:?}, BTreeMap says finds {:?} keys {:?} values {:?}", ops, keys, vals, gf, gk, gv, finds, mk, mv));
                    }
                }
                r.stat("map_operations", n as u64);
            }
            "sort" => {
                let xs = gen_ints(&mut rng, 30, -5, 5);
                let mut want = xs.clone();
                want.sort();
                let mut f = driver!("sort_ints", fn(Vec<i64>) -> Vec<i64>);
                let got = call!(f.call(xs.clone()), "sort_ints");
                if got != want {
                    return differs(format!("list.sort {:?} = {:?}, slice::sort gives {:?}", xs, got, want));
                }
                let ss: Vec<String> = (0..rng.below(12)).map(|_| rng.pick(KEYS).to_string()).collect();
                let mut want = ss.clone();
                want.sort();
                let mut f = driver!("sort_strs", fn(Vec<String>) -> Vec<String>);
                let got = call!(f.call(ss.clone()), "sort_strs");
                if got != want {
                    return differs(format!("list.sort {:?} = {:?}, slice::sort gives {:?}", ss, got, want));
                }
                r.stat("sorts", 2);
            }
            "list-array" => {
                let xs = gen_ints(&mut rng, 30, -1000, 1000);
                let ys = gen_ints(&mut rng, 30, -1000, 1000);
                let mut f = driver!("filter_pos", fn(Vec<i64>) -> Vec<i64>);
                let got = call!(f.call(xs.clone()), "filter_pos");
                let want: Vec<i64> = xs.iter().cloned().filter(|x| *x > 0).collect();
                if got != want {
                    return differs(format!("list.filter (> 0) {:?} = {:?}, expected {:?}", xs, got, want));
                }
                let want: Vec<i64> = xs.iter().chain(ys.iter()).cloned().collect();
                for name in ["list_append", "array_append"] {
                    let mut f = match vm.get_global::<FunctionRef<fn(Vec<i64>, Vec<i64>) -> Vec<i64>>>(&format!("c19drv.{}", name)) {
                        Ok(f) => f,
                        Err(e) => return CaseResult::inconclusive(h, format!("driver {}: {}", name, e)),
                    };
                    let got = call!(f.call(xs.clone(), ys.clone()), name);
                    if got != want {
                        return differs(format!("{} {:?} {:?} = {:?}, expected {:?}", name, xs, ys, got, want));
                    }
                }
                let fl = xs.iter().fold(0i64, |acc, x| acc - x);
                let fr = xs.iter().rev().fold(0i64, |acc, x| x - acc);
                for (name, want) in [("foldl_sub", fl), ("foldr_sub", fr), ("list_foldl_sub", fl), ("list_foldr_sub", fr)] {
                    let mut f = match vm.get_global::<FunctionRef<fn(Vec<i64>) -> i64>>(&format!("c19drv.{}", name)) {
                        Ok(f) => f,
                        Err(e) => return CaseResult::inconclusive(h, format!("driver {}: {}", name, e)),
                    };
                    let got = call!(f.call(xs.clone()), name);
                    if got != want {
                        return differs(format!("{} {:?} = {}, expected {}", name, xs, got, want));
                    }
                }
                let mut f = driver!("map_inc", fn(Vec<i64>) -> Vec<i64>);
                let got = call!(f.call(xs.clone()), "map_inc");
                if got != xs.iter().map(|x| x + 1).collect::<Vec<_>>() {
                    return differs(format!("array functor map (+1) {:?} = {:?}", xs, got));
                }
                let mut f = driver!("ord_arrays", fn(Vec<i64>, Vec<i64>) -> i64);
                let small: Vec<i64> = xs.iter().map(|x| x % 3).collect();
                let small2: Vec<i64> = if rng.chance(1, 3) { small.clone() } else { ys.iter().map(|x| x % 3).collect() };
                let got = call!(f.call(small.clone(), small2.clone()), "ord_arrays");
                let want = match small.cmp(&small2) {
                    std::cmp::Ordering::Less => -1,
                    std::cmp::Ordering::Equal => 0,
                    std::cmp::Ordering::Greater => 1,
                };
                if got != want {
                    return differs(format!("compare {:?} {:?} = {}, lexicographic order gives {}", small, small2, got, want));
                }
                let sa: Vec<String> = (0..rng.below(4)).map(|_| rng.pick(KEYS).to_string()).collect();
                let sb: Vec<String> = if rng.chance(1, 2) { sa.clone() } else { (0..rng.below(4)).map(|_| rng.pick(KEYS).to_string()).collect() };
                let mut f = driver!("eq_arrays", fn(Vec<String>, Vec<String>) -> bool);
                let got = call!(f.call(sa.clone(), sb.clone()), "eq_arrays");
                if got != (sa == sb) {
                    return differs(format!("{:?} == {:?} gives {}", sa, sb, got));
                }
                r.stat("list_array_calls", 10);
            }
            "slice-index" => {
                let mut xs = gen_ints(&mut rng, 30, -1000, 1000);
                if xs.is_empty() {
                    xs.push(7);
                }
                let a = rng.below(xs.len() + 1);
                let b = a + rng.below(xs.len() + 1 - a);
                let mut f = driver!("slice3", fn(Vec<i64>, i64, i64) -> Vec<i64>);
                let got = call!(f.call(xs.clone(), a as i64, b as i64), "slice3");
                if got != xs[a..b].to_vec() {
                    return differs(format!("array.slice {:?} {} {} = {:?}, expected {:?}", xs, a, b, got, &xs[a..b]));
                }
                // out-of-range requests must be refused, not answered
                let (ba, bb) = match rng.below(5) {
                    0 => (a as i64, (xs.len() + 1 + rng.below(3)) as i64),
                    1 => ((xs.len() + 1) as i64, (xs.len() + 2) as i64),
                    2 => (b as i64 + 1, b as i64),
                    3 => (-1, b as i64),
                    _ => (a as i64, -1),
                };
                let mut f = driver!("slice3", fn(Vec<i64>, i64, i64) -> Vec<i64>);
                if let Ok(got) = f.call(xs.clone(), ba, bb) {
                    return differs(format!("array.slice {:?} {} {} (out of range for length {}) is answered with {:?} instead of an error", xs, ba, bb, xs.len(), got));
                }
                let bad_index = if rng.chance(1, 2) { xs.len() as i64 + rng.below(3) as i64 } else { -1 - rng.below(3) as i64 };
                let mut f = match vm.get_global::<FunctionRef<fn(Vec<i64>, i64) -> i64>>("c19drv.index1") {
                    Ok(f) => f,
                    Err(e) => return CaseResult::inconclusive(h, format!("driver index1: {}", e)),
                };
                if let Ok(got) = f.call(xs.clone(), bad_index) {
                    return differs(format!("array.index {:?} {} (out of range) is answered with {} instead of an error", xs, bad_index, got));
                }
                r.stat("out_of_range_requests_refused", 2);
                let i = rng.below(xs.len());
                let mut f = match vm.get_global::<FunctionRef<fn(Vec<i64>, i64) -> i64>>("c19drv.index1") {
                    Ok(f) => f,
                    Err(e) => return CaseResult::inconclusive(h, format!("driver index1: {}", e)),
                };
                let got = call!(f.call(xs.clone(), i as i64), "index1");
                if got != xs[i] {
                    return differs(format!("array.index {:?} {} = {}, expected {}", xs, i, got, xs[i]));
                }
                r.stat("slice_index_calls", 2);
            }
            "string-props" => {
                let s = rng.pick(STRS).to_string();
                let t = rng.pick(STRS).to_string();
                let opt = |o: Option<usize>| o.map_or(-1, |v| v as i64);
                let want = (s.len() as i64, s.is_empty(), s.contains(&t[..]), s.starts_with(&t[..]), s.ends_with(&t[..]), opt(s.find(&t[..])), opt(s.rfind(&t[..])), s.trim().to_string(), s.trim_start().to_string(), s.trim_end().to_string(), format!("{}{}", s, t));
                let mut f = driver!("str_props", fn(String, String) -> (i64, bool, bool, bool, bool, i64, i64, String, String, String, String));
                let got = call!(f.call(s.clone(), t.clone()), "str_props");
                if got != want {
                    return differs(format!("string functions on {:?} and {:?}: (len, is_empty, contains, starts_with, ends_with, find, rfind, trim, trim_start, trim_end, <>) = {:?}, str gives {:?}", s, t, got, want));
                }
                let mut f = driver!("str_cmp", fn(String, String) -> i64);
                let got = call!(f.call(s.clone(), t.clone()), "str_cmp");
                let want = match s.cmp(&t) {
                    std::cmp::Ordering::Less => -1,
                    std::cmp::Ordering::Equal => 0,
                    std::cmp::Ordering::Greater => 1,
                };
                if got != want {
                    return differs(format!("compare {:?} {:?} = {}, str::cmp gives {}", s, t, got, want));
                }
                let mut f = driver!("str_bytes", fn(String) -> Vec<u8>);
                let got = call!(f.call(s.clone()), "str_bytes");
                if got != s.as_bytes() {
                    return differs(format!("string.as_bytes {:?} = {:?}", s, got));
                }
                r.stat("string_calls", 3);
            }
            "string-index" => {
                let s = rng.pick(STRS).to_string();
                let bounds: Vec<usize> = (0..=s.len()).filter(|i| s.is_char_boundary(*i)).collect();
                let a = *rng.pick(&bounds);
                let later: Vec<usize> = bounds.iter().cloned().filter(|b| *b >= a).collect();
                let b = *rng.pick(&later);
                let mut f = driver!("str_split", fn(String, i64) -> (String, String));
                let got = call!(f.call(s.clone(), a as i64), "str_split");
                let want = s.split_at(a);
                if (got.0.as_str(), got.1.as_str()) != want {
                    return differs(format!("string.split_at {:?} {} = {:?}, str gives {:?}", s, a, got, want));
                }
                let mut f = driver!("str_slice", fn(String, i64, i64) -> String);
                let got = call!(f.call(s.clone(), a as i64, b as i64), "str_slice");
                if got != s[a..b] {
                    return differs(format!("string.slice {:?} {} {} = {:?}, str gives {:?}", s, a, b, got, &s[a..b]));
                }
                if a < s.len() {
                    let mut f = driver!("str_char_at", fn(String, i64) -> char);
                    let got = call!(f.call(s.clone(), a as i64), "str_char_at");
                    let want = s[a..].chars().next().unwrap();
                    if got != want {
                        return differs(format!("string.char_at {:?} {} = {:?}, str gives {:?}", s, a, got, want));
                    }
                }
                r.stat("string_calls", 3);
            }
            "json" => {
                let v = gen_rec(&mut rng);
                let text = v.to_string();
                let mut f = driver!("json_round", fn(String) -> String);
                let got = call!(f.call(text.clone()), "json_round");
                match serde_json::from_str::<Value>(&got) {
                    Ok(back) => {
                        if !json_same(&back, &v) {
                            return differs(format!("JSON: deserialize then serialize turned {} into {}", text, got));
                        }
                    }
                    Err(e) => return differs(format!("JSON: deserialize then serialize of {} gives `{}`, which serde_json does not parse: {}", text, got.chars().take(300).collect::<String>(), e)),
                }
                r.stat("json_round_trips", 1);
            }
            _ => {
                let a = gen_rec(&mut rng);
                let b = if rng.chance(1, 2) {
                    a.clone()
                } else {
                    // change exactly one field
                    let mut b = a.clone();
                    match rng.below(5) {
                        0 => b["a"] = json!(a["a"].as_i64().unwrap_or(0).wrapping_add(1)),
                        1 => b["s"] = json!(format!("{}!", a["s"].as_str().unwrap_or(""))),
                        2 => b["b"] = json!(!a["b"].as_bool().unwrap_or(false)),
                        3 => b["inner"]["n"] = json!(a["inner"]["n"].as_i64().unwrap_or(0) + 1),
                        _ => b["xs"] = json!(["extra"]),
                    }
                    b
                };
                let want_eq = json_same(&a, &b);
                let mut f = driver!("json_eq_show", fn(String, String) -> (i64, String, String));
                let (eq, sa, sb) = call!(f.call(a.to_string(), b.to_string()), "json_eq_show");
                if eq < 0 {
                    return differs(format!("JSON: {} or {} is not deserialised", a, b));
                }
                if (eq == 1) != want_eq {
                    return differs(format!("derived Eq says {} for {} and {}, structural equality says {}", eq == 1, a, b, want_eq));
                }
                if (sa == sb) != want_eq {
                    return differs(format!("derived Show renders {} as `{}` and {} as `{}` (equal values: {})", a, sa, b, sb, want_eq));
                }
                r.stat("eq_show_pairs", 1);
            }
        }
        r
    }
}

pub fn dbg_main() {
    match mk_vm() {
        Ok(_) => println!("driver ok"),
        Err(e) => println!("{}", e),
    }
}
