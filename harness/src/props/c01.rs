//! C01 — evaluation matches the strict reference semantics (R-eval oracle).
use crate::lang::gen::{gen_program, GenOpts};
use crate::lang::print::{print_program, Style};
use crate::lang::reval::{run_reference, Fail, RefOutcome};
use crate::prop::*;
use crate::rng::{hash_str, Rng};
use crate::vmutil::*;
use gluon::RootedThread;
use serde_json::{json, Value};

pub struct C01;

pub fn ref_to_json(o: &RefOutcome) -> Value {
    match o {
        RefOutcome::Value(v) => json!({"value": v}),
        RefOutcome::Fail(Fail::Explicit(m)) => json!({"fail": "explicit", "message": m}),
        RefOutcome::Fail(Fail::Match) => json!({"fail": "match"}),
        RefOutcome::Fail(Fail::Arith) => json!({"fail": "arith"}),
        RefOutcome::Fail(Fail::Budget) => json!({"fail": "budget"}),
        RefOutcome::Fail(Fail::Stuck(m)) => json!({"fail": "stuck", "message": m}),
    }
}

/// compares a real outcome with the expectation recorded in the case
pub fn agrees(expect: &Value, got: &Outcome) -> bool {
    match got {
        Outcome::Value(v, _) => expect["value"].as_str() == Some(v.as_str()),
        Outcome::Error(class, msg) => match expect["fail"].as_str() {
            Some("explicit") => class == "explicit" && expect["message"].as_str() == Some(msg.as_str()),
            Some("match") => class == "match",
            Some("arith") => class == "arith",
            _ => false,
        },
    }
}

pub fn expect_class(expect: &Value) -> String {
    if expect.get("value").is_some() {
        "value".into()
    } else {
        expect["fail"].as_str().unwrap_or("?").to_string()
    }
}

pub fn outcome_class(o: &Outcome) -> String {
    match o {
        Outcome::Value(..) => "value".into(),
        Outcome::Error(c, _) => c.clone(),
    }
}

impl Prop for C01 {
    fn id(&self) -> &'static str {
        "C01"
    }
    fn rule(&self) -> &'static str {
        "type-directed random generation of closed terminating well-typed programs (G-prog) printed in a random concrete style; expected outcome from the independent strict reference interpreter; a case is non-trivial when the program uses >= 3 construct labels and its result is not a bare literal; distinct = distinct program text hash"
    }
    fn assumptions(&self) -> Vec<String> {
        vec![
            "the reference interpreter's strict call-by-value reading of the book is the documented semantics; evaluation order among siblings is never relied on (at most one possibly-failing sibling)".into(),
            "floats restricted to exactly representable dyadic values".into(),
        ]
    }
    fn phases(&self, tier: Tier) -> Vec<Phase> {
        vec![
            Phase::new("random", tier.pick(30000, 500000)).min_cases(tier.pick(8000, 80000)).timeouts(60, tier.pick(240, 1500)),
            Phase::new("random-opt", tier.pick(6000, 80000)).min_cases(tier.pick(1500, 20000)).timeouts(60, tier.pick(240, 900)),
            Phase::new("random-prelude", tier.pick(1500, 20000)).min_cases(tier.pick(400, 5000)).timeouts(120, tier.pick(240, 900)),
        ]
    }
    fn worker(&self, ctx: &WorkerCtx) -> Box<dyn Worker> {
        Box::new(W { vm: None, cf_vm: None, used: 0, prelude: ctx.phase == "random-prelude", optimize: ctx.phase == "random-opt", tier: ctx.tier })
    }
}

struct W {
    vm: Option<RootedThread>,
    /// separate VM for counterfactual runs (a host panic there must not poison the main one)
    cf_vm: Option<RootedThread>,
    used: u32,
    prelude: bool,
    /// optimiser on: only programs without failing constructs (what the optimiser may do to
    /// failing dead code is C04's business)
    optimize: bool,
    tier: Tier,
}

impl Worker for W {
    fn gen(&mut self, rng: &mut Rng, idx: u64) -> Option<Value> {
        let mut opts = GenOpts::default_ordered();
        opts.max_depth = 3 + rng.below(5) as u32;
        opts.node_budget = 30 + rng.below(90) as i32;
        opts.prelude_ops = self.prelude;
        if self.optimize {
            opts.fail_pct = 0;
        }
        // twin program: identical except that every record pattern is complete and in type order
        let mut twin_rng = rng.clone();
        let mut twin_opts = opts.clone();
        twin_opts.canonical_record_patterns = true;
        let twin = gen_program(&mut twin_rng, twin_opts);
        let g = gen_program(rng, opts);
        let (expect, _, steps) = run_reference(&g.program, 300_000, false);
        if let RefOutcome::Fail(Fail::Budget) = expect {
            return None;
        }
        if self.optimize && !matches!(expect, RefOutcome::Value(_)) {
            // an arithmetic failure the generator did not plan: may legitimately be optimised away
            return None;
        }
        let style_bits = rng.next() as u32 & 0b11011;
        let style = Style::from_bits(style_bits);
        let src = print_program(&g.program, style);
        let stress = if idx % 50 == 7 { 1 + rng.below(3) } else { 0 };
        let _ = self.tier;
        Some(json!({
            "src": src, "expect": ref_to_json(&expect), "feats": g.feats, "prelude": self.prelude, "optimize": self.optimize,
            "size": g.program.body.as_ref().map_or(0, |b| b.size()), "ref_steps": steps, "gc_stress": stress,
            "style": format!("{:?}", style), "style_bits": style_bits,
            "ast": serde_json::to_value(&g.program).unwrap(),
            "ast_twin": if twin.program != g.program { serde_json::to_value(&twin.program).unwrap() } else { Value::Null },
        }))
    }

    fn run(&mut self, case: &Value) -> CaseResult {
        let src = case["src"].as_str().unwrap();
        let h = hash_str(src);
        if case["expect"]["fail"] == "stuck" {
            return CaseResult::inconclusive(h, format!("reference interpreter stuck: {}", case["expect"]["message"]));
        }
        if self.vm.is_none() || self.used >= 300 {
            let mut s = Settings::PLAIN;
            s.prelude = case["prelude"].as_bool().unwrap_or(false);
            s.optimize = case["optimize"].as_bool().unwrap_or(false);
            let vm = vm_with(s);
            crate::fx::register(&vm);
            self.vm = Some(vm);
            self.used = 0;
        }
        self.used += 1;
        let vm = self.vm.as_ref().unwrap();
        let feats: Vec<String> = case["feats"].as_array().map(|a| a.iter().filter_map(|x| x.as_str().map(String::from)).collect()).unwrap_or_default();
        // counterfactual attribution, computed *before* the real run so that it is also known
        // when the real run kills the process: does the program agree with the reference when
        // exactly the recursive-value feature is rewritten away (same meaning, rec function)?
        let mut neutralised: Option<&'static str> = None;
        let has = |f: &str| feats.iter().any(|x| x == f);
        if has("rec-value") || has("tuple-projection-on-variable") || has("record-pattern") || !case["ast_twin"].is_null() {
            if let Ok(prog) = serde_json::from_value::<crate::lang::ast::Program>(case["ast"].clone()) {
                let style = Style::from_bits(case["style_bits"].as_u64().unwrap_or(1) as u32);
                let body = prog.body.clone().unwrap();
                let mut variants: Vec<(&'static str, crate::lang::ast::Expr)> = Vec::new();
                if has("rec-value") {
                    variants.push(("rec-value-as-rec-function", crate::lang::reduce::rec_values_as_functions(&body)));
                }
                if has("tuple-projection-on-variable") {
                    variants.push(("tuple-projection-as-pattern", crate::lang::reduce::tuple_projections_as_patterns(&body, &prog.tuple_vars)));
                }
                if variants.len() == 2 {
                    let both = crate::lang::reduce::tuple_projections_as_patterns(&variants[0].1, &prog.tuple_vars);
                    variants.push(("rec-value-as-rec-function+tuple-projection-as-pattern", both));
                }
                if has("record-pattern") {
                    variants.push(("record-patterns-normalised", crate::lang::reduce::normalise_record_patterns(&body)));
                }
                if let Ok(tw) = serde_json::from_value::<crate::lang::ast::Program>(case["ast_twin"].clone()) {
                    let tb = tw.body.clone().unwrap();
                    variants.push(("record-patterns-complete-in-type-order", tb.clone()));
                    let t2 = crate::lang::reduce::rec_values_as_functions(&tb);
                    let t3 = crate::lang::reduce::tuple_projections_as_patterns(&t2, &prog.tuple_vars);
                    variants.push(("all-known-rewrites", t3));
                }
                for (name, b2) in variants {
                    let mut p2 = prog.clone();
                    p2.body = Some(b2);
                    let src2 = print_program(&p2, style);
                    if self.cf_vm.is_none() {
                        let mut s = Settings::PLAIN;
                        s.prelude = case["prelude"].as_bool().unwrap_or(false);
                        s.optimize = case["optimize"].as_bool().unwrap_or(false);
                        self.cf_vm = Some(vm_with(s));
                    }
                    let cf = self.cf_vm.as_ref().unwrap();
                    match crate::worker::guarded(|| run_program_budget(cf, "c01_cf", &src2, 3_000_000)) {
                        Ok(g2) => {
                            if let Outcome::Error(..) = g2 {
                                self.cf_vm = None;
                            }
                            if agrees(&case["expect"], &g2) {
                                neutralised = Some(name);
                                break;
                            }
                        }
                        Err(_) => self.cf_vm = None,
                    }
                }
                if let Some(n) = neutralised {
                    crate::worker::note_key(&json!({"neutralised_by": n}));
                }
            }
        }
        // shape of the listed finding F57: a record update in a program that passes records through
        // functions (`twice f x = f (f x)`, higher-order functions, applied lambdas), where its
        // closed type can meet an open row
        let f57_shape = has("record-update") && (src.contains("twice") || has("higher-order") || has("applied-lambda"));
        crate::worker::note_key(&json!({"record_update_and_twice": f57_shape}));
        let stress = case["gc_stress"].as_u64().unwrap_or(0) as usize;
        gluon::vm::verif::set_gc_stress(stress);
        let got = run_program_budget(vm, &format!("c01_{:x}", h), src, 3_000_000);
        gluon::vm::verif::set_gc_stress(0);
        let literal_result = case["size"].as_u64().unwrap_or(0) <= 1;
        if let Outcome::Error(class, msg) = &got {
            if class == "typecheck" || class == "budget" {
                // not accepted by the real checker: outside C01's quantifier (C03's business);
                // counted so that a broken generator cannot hide here
                let mut r = CaseResult::skip(msg);
                r.stat(if class == "budget" { "vm_call_budget_exceeded" } else { "rejected_by_checker" }, 1);
                if msg.contains("may not be used recursively") {
                    r.stat("rejected_recursion_check", 1);
                }
                return r;
            }
        }
        let mut r = if agrees(&case["expect"], &got) {
            CaseResult::ok(h, feats.len() >= 3 && !literal_result)
        } else {
            // a failing evaluation may leave the VM in a state we do not want to reuse
            self.vm = None;
            let mut sig = json!({"kind": "eval-mismatch", "expected": expect_class(&case["expect"]), "got": outcome_class(&got)});
            if let Some(n) = neutralised {
                sig["neutralised_by"] = json!(n);
            }
            sig["record_update_and_twice"] = json!(f57_shape);
            CaseResult::violation(h, format!("reference says {} but gluon produced {}", case["expect"], got.short()), sig)
        };
        if let Outcome::Error(..) = got {
            // do not reuse a VM after a failed run (stack not unwound, see C06)
            self.vm = None;
            r.stat("failing_programs", 1);
        }
        if stress > 0 {
            r.stat("gc_stress_runs", 1);
        }
        r.stat(&format!("expect_{}", expect_class(&case["expect"])), 1);
        for f in feats {
            r.feat(f);
        }
        r
    }
}
