//! C04 — optimisation never changes behaviour (differential: optimize(true) vs optimize(false),
//! outcome + effect log; the one permitted difference is arbitrated by re-running the unoptimised
//! compiler on the program with dead built-in arithmetic removed).
use crate::lang::ast::*;
use crate::lang::gen::{gen_program_with, wrap_effect_helpers, GenOpts, C04_MODULE};
use crate::lang::print::{print_program, Style};
use crate::lang::reduce::{children, with_children};
use crate::prop::*;
use crate::rng::{hash_str, Rng};
use crate::vmutil::*;
use gluon::{RootedThread, ThreadExt};
use serde_json::{json, Value};

pub struct C04;

impl Prop for C04 {
    fn id(&self) -> &'static str {
        "C04"
    }
    fn level(&self) -> &'static str {
        "translation_validation"
    }
    fn rule(&self) -> &'static str {
        "generated programs (G-prog, order-free mode) with effectful and failing calls in discarded positions reached through identifiers, record fields, module fields, returned closures, partial application; each compiled with optimize(true) and optimize(false) on two VMs; (outcome, effect log) compared; a pair counts as a checked disagreement candidate when the program contains >= 1 discarded effectful/failing call; distinct = distinct program text"
    }
    fn assumptions(&self) -> Vec<String> {
        vec!["the unoptimised compiler is the reference; the permitted difference is applied to arithmetic nodes syntactically inside never-used bindings".into()]
    }
    fn phases(&self, tier: Tier) -> Vec<Phase> {
        vec![Phase::new("pairs", tier.pick(12000, 300000)).min_cases(tier.pick(3000, 50000)).timeouts(60, tier.pick(240, 1500))]
    }
    fn worker(&self, _ctx: &WorkerCtx) -> Box<dyn Worker> {
        Box::new(W { vms: None, used: 0 })
    }
    /// a compiler crash that takes the process down is C01/C02/C06's finding; C04 only compares
    /// the two compilation modes
    fn death_is_violation(&self) -> bool {
        false
    }
}

struct W {
    vms: Option<(RootedThread, RootedThread)>,
    used: u32,
}

fn mk_vm(optimize: bool) -> RootedThread {
    let mut s = Settings::PLAIN;
    s.optimize = optimize;
    let vm = vm_with(s);
    crate::fx::register(&vm);
    vm.load_script("c04mod", C04_MODULE).expect("load c04mod");
    let _ = crate::fx::take_log();
    vm
}

fn is_arith(op: &str) -> bool {
    matches!(op, "#Int+" | "#Int-" | "#Int*" | "#Int/" | "#Byte+" | "#Byte-" | "#Byte*" | "#Byte/")
}

fn pat_vars(p: &Pat, out: &mut Vec<String>) {
    match p {
        Pat::Wild | Pat::Lit(_) => {}
        Pat::Var(v) => out.push(v.clone()),
        Pat::As(v, q) => {
            out.push(v.clone());
            pat_vars(q, out);
        }
        Pat::Ctor(_, ps) | Pat::Tuple(ps) => ps.iter().for_each(|q| pat_vars(q, out)),
        Pat::Record(fs) => fs.iter().for_each(|(n, q)| match q {
            None => out.push(n.clone()),
            Some(q) => pat_vars(q, out),
        }),
    }
}

fn mentions(e: &Expr, name: &str) -> bool {
    let mut found = false;
    crate::lang::gen::walk(e, &mut |x| {
        if let Expr::Var(v) = x {
            if v == name {
                found = true;
            }
        }
    });
    found
}

/// Paths (pre-order indexes) of built-in arithmetic nodes that sit inside the value of a binding
/// none of whose variables is used afterwards (names are unique, so "mentions" is exact), not
/// under a lambda.
fn dead_arith_nodes(e: &Expr, dead: bool, under_lambda: bool, idx: &mut usize, out: &mut Vec<usize>) {
    let me = *idx;
    *idx += 1;
    if let Expr::BinOp(op, _, _) = e {
        let _ = under_lambda;
        if dead && is_arith(op) {
            out.push(me);
        }
    }
    match e {
        Expr::Let(p, params, v, body) if params.is_empty() => {
            let mut vars = Vec::new();
            pat_vars(p, &mut vars);
            let unused = vars.iter().all(|x| !mentions(body, x));
            dead_arith_nodes(v, dead || unused, under_lambda, idx, out);
            dead_arith_nodes(body, dead, under_lambda, idx, out);
        }
        Expr::Lam(..) => {
            for c in children(e) {
                dead_arith_nodes(c, dead, true, idx, out);
            }
        }
        Expr::Let(_, _, v, body) => {
            dead_arith_nodes(v, dead, true, idx, out);
            dead_arith_nodes(body, dead, under_lambda, idx, out);
        }
        _ => {
            for c in children(e) {
                dead_arith_nodes(c, dead, under_lambda, idx, out);
            }
        }
    }
}

/// outcomes compared without the type text (user types are qualified by the module name, which
/// differs between the runs of a counterfactual)
fn same(a: &(Outcome, Vec<(String, i64)>), b: &(Outcome, Vec<(String, i64)>)) -> bool {
    let o = match (&a.0, &b.0) {
        (Outcome::Value(x, _), Outcome::Value(y, _)) => x == y,
        (Outcome::Error(c1, m1), Outcome::Error(c2, m2)) => {
            let strip = |m: &str| m.split_whitespace().filter(|t| !t.starts_with("c04_")).collect::<Vec<_>>().join(" ");
            c1 == c2 && strip(m1) == strip(m2)
        }
        _ => false,
    };
    o && a.1 == b.1
}

/// can this arithmetic node fail at all? (division, byte arithmetic, or a large literal operand)
fn may_fail_node(body: &Expr, idx: usize) -> bool {
    fn find<'a>(e: &'a Expr, target: usize, idx: &mut usize) -> Option<&'a Expr> {
        let me = *idx;
        *idx += 1;
        if me == target {
            return Some(e);
        }
        for c in children(e) {
            if let Some(x) = find(c, target, idx) {
                return Some(x);
            }
        }
        None
    }
    match find(body, idx, &mut 0) {
        Some(Expr::BinOp(op, l, r)) => {
            if op.ends_with('/') || op.starts_with("#Byte") {
                return true;
            }
            let mut big = false;
            for side in [l, r] {
                crate::lang::gen::walk(side, &mut |x| {
                    if let Expr::Lit(Lit::Int(v)) = x {
                        if v.unsigned_abs() > (1 << 31) {
                            big = true;
                        }
                    }
                    // values flowing in through variables or calls may be anything
                    if matches!(x, Expr::Var(_) | Expr::App(..)) {
                        big = true;
                    }
                });
            }
            big
        }
        _ => false,
    }
}

fn arith_nodes(e: &Expr, idx: &mut usize, out: &mut Vec<usize>) {
    let me = *idx;
    *idx += 1;
    if let Expr::BinOp(op, _, _) = e {
        if is_arith(op) {
            out.push(me);
        }
    }
    for c in children(e) {
        arith_nodes(c, idx, out);
    }
}

fn replace_nodes(e: &Expr, targets: &[usize], idx: &mut usize, val: i64) -> Expr {
    let me = *idx;
    *idx += 1;
    let cs: Vec<Expr> = children(e).into_iter().map(|c| replace_nodes(c, targets, idx, val)).collect();
    if targets.contains(&me) {
        if let Expr::BinOp(op, _, _) = e {
            // skip the operation itself but keep evaluating its operands (their effects and
            // failures are not what the permitted difference covers)
            let k = if op.starts_with("#Byte") { Expr::Lit(Lit::Byte(val as u8)) } else { int(val) };
            let mut it = cs.into_iter();
            let (l, r) = (it.next().unwrap(), it.next().unwrap());
            let simple = |x: &Expr| matches!(x, Expr::Lit(_) | Expr::Var(_));
            if simple(&l) && simple(&r) {
                return k;
            }
            return Expr::Let(Pat::Wild, vec![], b(l), b(Expr::Let(Pat::Wild, vec![], b(r), b(k))));
        }
    }
    with_children(e, cs)
}

/// A host panic is recorded as an outcome class of its own: C04 only asks whether the two
/// compilation modes behave alike (the panic itself is C01/C02's finding)
fn run_both(vm: &RootedThread, name: &str, src: &str) -> (Outcome, Vec<(String, i64)>) {
    let _ = crate::fx::take_log();
    let o = match crate::worker::guarded(|| run_program_budget(vm, name, src, 3_000_000)) {
        Ok(o) => o,
        Err((loc, _)) => Outcome::Error("host-panic".into(), crate::worker::strip_repo(&loc)),
    };
    (o, crate::fx::take_log())
}

type Obs = (Outcome, Vec<(String, i64)>);

enum Judged {
    Same,
    /// differs only by skipped dead built-in arithmetic
    Permitted,
    Differs { unopt: Obs, opt: Obs, tried: usize },
    /// typecheck / parse / budget / host panic: nothing to compare
    Skip(String, String),
}

/// Runs `prog` both ways and decides whether the two behaviours are the same up to the permitted
/// difference.
fn judge(vo: &RootedThread, vu: &RootedThread, prog: &Program, style: Style, name: &str) -> Judged {
    let src = print_program(prog, style);
    let u = run_both(vu, name, &src);
    if let Outcome::Error(c, m) = &u.0 {
        if c == "typecheck" || c == "budget" || c == "parse" || c == "host-panic" {
            return Judged::Skip(c.clone(), m.clone());
        }
    }
    let o = run_both(vo, name, &src);
    if let Outcome::Error(c, m) = &o.0 {
        if c == "budget" || c == "host-panic" {
            return Judged::Skip(c.clone(), m.clone());
        }
    }
    if same(&u, &o) {
        return Judged::Same;
    }
    // Permitted difference: a built-in arithmetic operation whose result is never used was
    // skipped. Decided dynamically on the *unoptimised* compiler: 1. arithmetic nodes that can
    // fail at all; 2. of those, the ones whose value never matters (0 and 1 in its place give the
    // same behaviour, operands still evaluated); 3. skipping some subset of them must reproduce
    // the optimised behaviour exactly.
    let mut body = prog.body.clone().unwrap();
    let mut tried = 0usize;
    let mut run_with = |b: &Expr, tag: &str| {
        let mut p2 = prog.clone();
        p2.body = Some(b.clone());
        tried += 1;
        run_both(vu, &format!("{}_{}{}", name, tag, tried), &print_program(&p2, style))
    };
    let mut search_complete = true;
    // rounds: removing a dead operation can make the operations that fed it dead in turn
    for _round in 0..4 {
        let mut nodes = Vec::new();
        arith_nodes(&body, &mut 0, &mut nodes);
        let nodes: Vec<usize> = nodes.into_iter().filter(|n| may_fail_node(&body, *n)).collect();
        if nodes.is_empty() {
            break;
        }
        if nodes.len() > 30 {
            search_complete = false;
            break;
        }
        let mut dead = Vec::new();
        for n in nodes {
            let r0 = run_with(&replace_nodes(&body, &[n], &mut 0, 0), "z");
            if matches!(&r0.0, Outcome::Error(c, _) if c == "host-panic") {
                return Judged::Skip("host-panic".into(), "in counterfactual".into());
            }
            let r1 = run_with(&replace_nodes(&body, &[n], &mut 0, 1), "o");
            if same(&r0, &r1) {
                dead.push(n);
            }
        }
        if dead.is_empty() {
            break;
        }
        if dead.len() > 16 {
            search_complete = false;
            break;
        }
        // larger subsets first: the optimiser usually skips all of them
        let mut masks: Vec<u32> = (1u32..(1u32 << dead.len())).collect();
        masks.sort_by_key(|m| std::cmp::Reverse(m.count_ones()));
        if masks.len() > 400 {
            search_complete = false;
        }
        for mask in masks.into_iter().take(400) {
            let subset: Vec<usize> = dead.iter().enumerate().filter(|(i, _)| mask & (1 << i) != 0).map(|(_, n)| *n).collect();
            let r = run_with(&replace_nodes(&body, &subset, &mut 0, 0), "s");
            if same(&r, &o) {
                return Judged::Permitted;
            }
        }
        // next round on the program with every dead operation of this round skipped
        body = replace_nodes(&body, &dead, &mut 0, 0);
    }
    if !search_complete {
        return Judged::Skip("permitted-difference-search-incomplete".into(), "too many candidate operations".into());
    }
    Judged::Differs { unopt: u, opt: o, tried }
}

impl Worker for W {
    fn gen(&mut self, rng: &mut Rng, _idx: u64) -> Option<Value> {
        let mut opts = GenOpts::default_ordered();
        opts.order_free = true;
        opts.effects = true;
        opts.fail_pct = 70;
        opts.max_depth = 3 + rng.below(4) as u32;
        opts.node_budget = 30 + rng.below(80) as i32;
        let g = gen_program_with(rng, opts, wrap_effect_helpers);
        let style_bits = rng.next() as u32 & 0b11011;
        let src = print_program(&g.program, Style::from_bits(style_bits));
        let discards = g.feats.iter().filter(|f| f.starts_with("fx-") || f.starts_with("fail-") || f.starts_with("dead-arith")).count();
        Some(json!({
            "src": src, "feats": g.feats, "style_bits": style_bits, "discarded_call_kinds": discards,
            "ast": serde_json::to_value(&g.program).unwrap(),
        }))
    }

    fn run(&mut self, case: &Value) -> CaseResult {
        let src = case["src"].as_str().unwrap();
        let h = hash_str(src);
        if self.vms.is_none() || self.used >= 200 {
            self.vms = Some((mk_vm(true), mk_vm(false)));
            self.used = 0;
        }
        self.used += 1;
        let (vo, vu) = self.vms.as_ref().unwrap();
        let name = format!("c04_{:x}", h);
        let prog: Program = match serde_json::from_value(case["ast"].clone()) {
            Ok(p) => p,
            Err(e) => return CaseResult::inconclusive(h, format!("case without ast: {}", e)),
        };
        let style = Style::from_bits(case["style_bits"].as_u64().unwrap_or(1) as u32);
        let discards = case["discarded_call_kinds"].as_u64().unwrap_or(0);
        let feats: Vec<String> = case["feats"].as_array().map(|a| a.iter().filter_map(|x| x.as_str().map(String::from)).collect()).unwrap_or_default();
        let mut r = match judge(vo, vu, &prog, style, &name) {
            Judged::Same => CaseResult::ok(h, discards >= 1),
            Judged::Permitted => {
                let mut r = CaseResult::ok(h, true);
                r.stat("permitted_dead_arith_differences", 1).stat("pairs_that_differed", 1);
                r
            }
            Judged::Skip(c, m) => {
                let mut r = CaseResult::skip(&m);
                r.stat(&format!("skipped_{}", c.replace('-', "_")), 1);
                if c == "parse" {
                    // a printer bug would hide here: make it loud
                    r.verdict = Verdict::Inconclusive;
                    r.msg = format!("generated program does not parse: {}", m);
                }
                if c == "host-panic" {
                    self.vms = None;
                }
                if c == "permitted-difference-search-incomplete" {
                    r.verdict = Verdict::Inconclusive;
                    r.msg = "the two modes differ and the search for a permitted explanation hit its caps".into();
                }
                return r;
            }
            Judged::Differs { unopt, opt, tried } => {
                let what = if !same(&(unopt.0.clone(), vec![]), &(opt.0.clone(), vec![])) { "outcome" } else { "effect-log" };
                let mut sig = json!({
                    "kind": "opt-diff", "differs": what,
                    "unopt": crate::props::c01::outcome_class(&unopt.0), "opt": crate::props::c01::outcome_class(&opt.0),
                });
                // counterfactual attribution: the disagreement must vanish when exactly the
                // feature named by a known finding is rewritten away (same meaning)
                let body = prog.body.clone().unwrap();
                let rewrites: Vec<(&str, Expr)> = vec![
                    ("rec-value-as-rec-function", crate::lang::reduce::rec_values_as_functions(&body)),
                    ("callee-bound-to-identifier", bind_callees(&body, &mut 0)),
                ];
                for (rname, b2) in rewrites {
                    if b2 == body {
                        continue;
                    }
                    let mut p2 = prog.clone();
                    p2.body = Some(b2);
                    let (vo, vu) = self.vms.as_ref().unwrap();
                    if matches!(judge(vo, vu, &p2, style, &format!("{}_cf", name)), Judged::Same | Judged::Permitted) {
                        sig["neutralised_by"] = json!(rname);
                        break;
                    }
                }
                let mut r = CaseResult::violation(
                    h,
                    format!("optimised and unoptimised runs differ in {}: unopt = {} log {:?}; opt = {} log {:?} ({} counterfactual runs for the permitted difference)", what, unopt.0.short(), unopt.1, opt.0.short(), opt.1, tried),
                    sig,
                );
                r.stat("pairs_that_differed", 1);
                r
            }
        };
        r.stat("programs", 1);
        if discards >= 1 {
            r.stat("disagreements_checked", 1);
        }
        for f in feats {
            r.feat(f);
        }
        r
    }
}

/// every `(<non-identifier callee>) args` => `let c = <callee> in c args` (same meaning)
fn bind_callees(e: &Expr, ctr: &mut usize) -> Expr {
    let cs: Vec<Expr> = children(e).into_iter().map(|c| bind_callees(c, ctr)).collect();
    let e2 = with_children(e, cs);
    if let Expr::App(f, args) = &e2 {
        if !matches!(**f, Expr::Var(_)) {
            *ctr += 1;
            let c = format!("callee{}", ctr);
            let call = Expr::App(b(var(&c)), args.clone());
            return Expr::Let(Pat::Var(c), vec![], f.clone(), b(call));
        }
    }
    e2
}
