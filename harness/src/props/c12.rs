//! C12 — precompiled bytecode behaves like its source; truncated / dangling-reference bytecode
//! fails with an error instead of crashing.
use crate::lang::gen::{gen_program, GenOpts};
use crate::lang::print::{print_program, Style};
use crate::prop::*;
use crate::rng::{hash_str, Rng};
use crate::vmutil::*;
use gluon::compiler_pipeline::{Executable, Precompiled};
use gluon::{RootedThread, Thread, ThreadExt};
use serde_json::{json, Value};

pub struct C12;

impl Prop for C12 {
    fn id(&self) -> &'static str {
        "C12"
    }
    fn level(&self) -> &'static str {
        "translation_validation"
    }
    fn rule(&self) -> &'static str {
        "generated programs (closures, recursive groups, records, variants, strings, floats) compiled to bytecode with serde_json (compact and pretty, debug info on/off), loaded back in the same and in a fresh VM and compared with running the source; fault cases: truncation at sampled byte offsets and renaming a referenced module to an undefined one; a program counts as a checked pair when source run and both bytecode runs completed and were compared; distinct = program text"
    }
    fn assumptions(&self) -> Vec<String> {
        vec!["only the two fault classes the property names are judged (truncation, reference to something undefined)".into()]
    }
    fn phases(&self, tier: Tier) -> Vec<Phase> {
        vec![Phase::new("roundtrip", tier.pick(12000, 800000)).min_cases(tier.pick(3000, 120000)).timeouts(120, tier.pick(300, 1500))]
    }
    fn worker(&self, _ctx: &WorkerCtx) -> Box<dyn Worker> {
        Box::new(W { vm: None, used: 0 })
    }
}

struct W {
    vm: Option<RootedThread>,
    used: u32,
}

fn fresh_vm(debug_info: bool) -> RootedThread {
    let mut s = Settings::PLAIN;
    s.optimize = true;
    s.debug_info = debug_info;
    vm_with(s)
}

fn run_pre(vm: &Thread, name: &str, buf: &[u8]) -> Outcome {
    let mut de = serde_json::Deserializer::from_slice(buf);
    let r = futures::executor::block_on(Precompiled(&mut de).run_expr(&mut vm.module_compiler(&mut vm.get_database()), vm, name, "", ()));
    match r {
        Ok(v) => {
            let mut s = String::new();
            render(v.value.get_variant().as_ref(), &mut s, 0);
            Outcome::Value(s, String::new())
        }
        Err(e) => {
            let (c, m) = classify_error(&e);
            Outcome::Error(c, m)
        }
    }
}

fn guarded_pre(vm: &Thread, name: &str, buf: &[u8]) -> Result<Outcome, String> {
    set_call_budget(vm, 3_000_000);
    let r = crate::worker::guarded(|| run_pre(vm, name, buf)).map_err(|(loc, msg)| format!("{}: {}", crate::worker::strip_repo(&loc), msg.lines().next().unwrap_or("")));
    if r.is_ok() {
        clear_call_budget(vm);
    }
    r
}

impl Worker for W {
    fn gen(&mut self, rng: &mut Rng, _idx: u64) -> Option<Value> {
        let mut opts = GenOpts::default_ordered();
        opts.max_depth = 3 + rng.below(4) as u32;
        opts.node_budget = 40 + rng.below(80) as i32;
        opts.fail_pct = 10;
        let g = gen_program(rng, opts);
        // third witness: what the reference interpreter says the program evaluates to
        let (expect, _, _) = crate::lang::reval::run_reference(&g.program, 300_000, false);
        let style_bits = rng.next() as u32 & 0b11011;
        let src = print_program(&g.program, Style::from_bits(style_bits));
        Some(json!({
            "src": src, "feats": g.feats, "expect": crate::props::c01::ref_to_json(&expect), "pretty": rng.chance(1, 2), "debug_info": rng.chance(1, 2),
            "cuts": (0..6).map(|_| rng.next() % 10_000).collect::<Vec<u64>>(),
        }))
    }

    fn run(&mut self, case: &Value) -> CaseResult {
        let src = case["src"].as_str().unwrap();
        let h = hash_str(src);
        let debug_info = case["debug_info"].as_bool().unwrap_or(true);
        if self.vm.is_none() || self.used >= 100 {
            self.vm = Some(fresh_vm(debug_info));
            self.used = 0;
        }
        self.used += 1;
        let vm = self.vm.clone().unwrap();
        let vm = &vm;
        vm.get_database_mut().emit_debug_info(debug_info);
        let name = format!("c12_{:x}", h);
        crate::worker::note_key(&json!({"not_this_property": true, "stage": "source-run"}));
        let direct = match crate::worker::guarded(|| run_program_budget(vm, &name, src, 3_000_000)) {
            Ok(d) => d,
            Err(_) => {
                self.vm = None;
                let mut r = CaseResult::skip("compiler panic on the source (C01/C02 finding)");
                r.stat("skipped_compiler_panic", 1);
                return r;
            }
        };
        if let Outcome::Error(c, m) = &direct {
            if c == "typecheck" || c == "parse" || c == "budget" {
                let mut r = CaseResult::skip(m);
                r.stat("rejected_by_checker", 1);
                return r;
            }
        }
        // A source run that already disagrees with the reference interpreter is a miscompiled
        // program (C01's findings: wrong stack slots read whatever is there): what its bytecode
        // does elsewhere is not a statement about serialisation
        if !case["expect"].is_null() && case["expect"]["fail"] != "stuck" && case["expect"]["fail"] != "budget" && !crate::props::c01::agrees(&case["expect"], &direct) {
            let mut r = CaseResult::skip("the source run disagrees with the reference interpreter (C01)");
            r.stat("skipped_source_run_disagrees_with_reference", 1);
            self.vm = None;
            return r;
        }
        // ---- serialise
        crate::worker::clear_key();
        crate::worker::note_key(&json!({"not_this_property": false, "stage": "bytecode"}));
        let mut buf = Vec::new();
        let ser_res = crate::worker::guarded(|| {
            if case["pretty"].as_bool().unwrap_or(false) {
                let mut ser = serde_json::Serializer::pretty(&mut buf);
                futures::executor::block_on(vm.compile_to_bytecode(&name, src, &mut ser)).map(|_| ()).map_err(|e| e.to_string())
            } else {
                let mut ser = serde_json::Serializer::new(&mut buf);
                futures::executor::block_on(vm.compile_to_bytecode(&name, src, &mut ser)).map(|_| ()).map_err(|e| e.to_string())
            }
        });
        match ser_res {
            Ok(Ok(())) => {}
            Ok(Err(e)) => {
                return CaseResult::violation(h, format!("source runs ({}) but compile_to_bytecode fails: {}", direct.short(), e.lines().next().unwrap_or("")), json!({"kind": "serialise-error", "error": e.lines().next().unwrap_or("").trim()}));
            }
            Err((loc, msg)) => {
                self.vm = None;
                return CaseResult::violation(h, format!("compile_to_bytecode panicked at {}: {}", loc, msg), json!({"kind": "host-panic", "location": crate::worker::strip_repo(&loc), "stage": "serialise"}));
            }
        }
        let mut r = CaseResult::ok(h, true);
        r.stat("programs", 1).stat("bytecode_bytes", buf.len() as u64);
        let cmp = |a: &Outcome, b: &Outcome| match (a, b) {
            (Outcome::Value(x, _), Outcome::Value(y, _)) => x == y,
            (Outcome::Error(c1, m1), Outcome::Error(c2, m2)) => c1 == c2 && (c1 != "explicit" || m1 == m2),
            _ => false,
        };
        // ---- same VM and fresh VM
        // a fresh VM that never loaded the modules the program imports: the bytecode refers to
        // something undefined there and must fail with an error (or not need them at all)
        let bare = fresh_vm(debug_info);
        r.stat("bare_vm_loads", 1);
        match guarded_pre(&bare, &name, &buf) {
            Ok(Outcome::Error(..)) => {
                r.stat("bare_vm_refused_with_error", 1);
            }
            Ok(o) => {
                if !cmp(&direct, &o) {
                    return CaseResult::violation(h, format!("bytecode loaded in a VM without its imports evaluates to {} (source: {})", o.short(), direct.short()), json!({"kind": "bytecode-mismatch", "where": "bare-vm"}));
                }
            }
            Err(p) => {
                return CaseResult::violation(h, format!("bytecode loaded in a VM without its imports panics instead of failing: {}", p), json!({"kind": "host-panic", "location": p.split(':').take(2).collect::<Vec<_>>().join(":"), "stage": "bare-vm-load"}));
            }
        }
        drop(bare);
        // a fresh VM in which the imported modules have been loaded
        let fresh = fresh_vm(debug_info);
        let pre = format!("{}()\n", crate::lang::print::BASE_PREAMBLE);
        if let Outcome::Error(c, m) = run_program(&fresh, "c12_preload", &pre) {
            return CaseResult::inconclusive(h, format!("preloading imports failed [{}]: {}", c, m));
        }
        for (label, target) in [("same-vm", &**vm), ("fresh-vm", &*fresh)] {
            match guarded_pre(target, &name, &buf) {
                Ok(o) => {
                    r.stat("disagreements_checked", 1);
                    if !cmp(&direct, &o) {
                        return CaseResult::violation(
                            h,
                            format!("bytecode loaded in the {} evaluates to {} but the source evaluates to {}", label, o.short(), direct.short()),
                            json!({"kind": "bytecode-mismatch", "where": label, "source": crate::props::c01::outcome_class(&direct), "bytecode": crate::props::c01::outcome_class(&o)}),
                        );
                    }
                }
                Err(p) => {
                    self.vm = None;
                    return CaseResult::violation(h, format!("loading bytecode in the {} panicked: {}", label, p), json!({"kind": "host-panic", "location": p.split(':').take(2).collect::<Vec<_>>().join(":"), "stage": "load"}));
                }
            }
        }
        // ---- faults: truncation
        let cuts: Vec<usize> = case["cuts"].as_array().map(|a| a.iter().filter_map(|x| x.as_u64()).map(|c| (c as usize * buf.len()) / 10_000).collect()).unwrap_or_default();
        for cut in cuts {
            if cut >= buf.len() {
                continue;
            }
            r.stat("truncation_faults", 1);
            match guarded_pre(&fresh, &name, &buf[..cut]) {
                Ok(Outcome::Error(..)) => {}
                Ok(o @ Outcome::Value(..)) => {
                    return CaseResult::violation(h, format!("bytecode truncated at byte {} of {} still loads and evaluates to {}", cut, buf.len(), o.short()), json!({"kind": "truncated-accepted"}));
                }
                Err(p) => {
                    return CaseResult::violation(h, format!("bytecode truncated at byte {} of {} panics instead of failing: {}", cut, buf.len(), p), json!({"kind": "host-panic", "location": p.split(':').take(2).collect::<Vec<_>>().join(":"), "stage": "truncated-load"}));
                }
            }
        }
        // ---- faults: reference to something the VM does not define
        let text = String::from_utf8_lossy(&buf).to_string();
        for (from, to) in [("std.prim", "std.zzzz"), ("std.types", "std.typez"), ("std.array.prim", "std.array.zzzz")] {
            if text.contains(from) {
                let bad = text.replace(from, to);
                r.stat("undefined_reference_faults", 1);
                let v3 = fresh_vm(debug_info);
                match guarded_pre(&v3, &name, bad.as_bytes()) {
                    Ok(Outcome::Error(..)) => {}
                    Ok(o) => {
                        // legitimate only if the renamed module is never actually used at run time
                        if !cmp(&direct, &o) {
                            return CaseResult::violation(h, format!("bytecode naming the undefined module {} evaluates to {}", to, o.short()), json!({"kind": "undefined-reference-accepted"}));
                        }
                        r.stat("undefined_reference_unused", 1);
                    }
                    Err(p) => {
                        return CaseResult::violation(h, format!("bytecode naming the undefined module {} panics instead of failing: {}", to, p), json!({"kind": "host-panic", "location": p.split(':').take(2).collect::<Vec<_>>().join(":"), "stage": "undefined-reference-load"}));
                    }
                }
                break;
            }
        }
        if let Outcome::Error(..) = direct {
            self.vm = None;
        }
        for f in case["feats"].as_array().cloned().unwrap_or_default() {
            if let Some(f) = f.as_str() {
                r.feat(f);
            }
        }
        r
    }
}
