//! C14 — parallel execution is safe and equivalent to running alone. Rounds of 2–16 OS threads,
//! each driving its own child thread of one VM, run generated programs with overlapping import
//! sets at the same moment; results are compared with solo results, module bodies are counted.
use crate::prop::*;
use crate::rng::{hash_str, Rng};
use crate::vmutil::*;
use gluon::query::CompilationBase;
use gluon::vm::thread::ThreadInternal;
use gluon::vm::verif;
use gluon::{RootedThread, ThreadExt};
use serde_json::{json, Value};
use std::collections::BTreeMap;
use std::fmt::Write;
use std::sync::{Arc, Barrier};

pub struct C14;

impl Prop for C14 {
    fn id(&self) -> &'static str {
        "C14"
    }
    fn rule(&self) -> &'static str {
        "rounds: one VM, a pool of 3-6 in-memory modules (registered, not loaded; each body starts with verif.fx.loaded <id>, some export a lazy value whose computation ticks verif.fx), 2-16 OS threads each owning a child thread of the VM and running a generated program that imports a random subset of the pool, allocates (arrays, strings, records in loops) and forces the shared lazies; all threads start behind one barrier; GC stress (collection at every k-th check) makes parent and child collections interleave; seeded yield/spin/sleep at the hook's sched points perturbs the order; two drivers: std threads with blocking run_expr on new_vm(), and a multi-threaded tokio runtime with run_expr_async on new_vm_async(); oracles: every thread's result equals the result of the same program run alone on a fresh VM; every imported module's body ran exactly once and every forced lazy's computation ran exactly once (effect log); the heap-ownership walk after the round finds nothing; CPU-budget and blocked-forever monitors catch live- and deadlocks; ASan (quick, thorough) and TSan (thorough) builds run the same rounds; a schedule signature (order of first module-body runs and sched-point log hash) is recorded per round; non-trivial = at least two threads import a common module; distinct = round"
    }
    fn phases(&self, tier: Tier) -> Vec<Phase> {
        let mut v = vec![
            Phase::new("rounds", tier.pick(1200, 7000)).min_cases(tier.pick(400, 2000)).timeouts(180, tier.pick(500, 3000)),
            Phase::new("std-imports", tier.pick(500, 2400)).min_cases(tier.pick(150, 700)).timeouts(400, tier.pick(600, 3000)),
            Phase::new("channel-rounds", tier.pick(600, 7000)).min_cases(tier.pick(200, 2000)).timeouts(400, tier.pick(600, 3000)),
            Phase::new("rounds-asan", tier.pick(80, 300)).build(Build::Asan).min_cases(tier.pick(25, 80)).timeouts(300, tier.pick(500, 3000)),
        ];
        if tier == Tier::Thorough {
            v.push(Phase::new("rounds-tsan", 1500).build(Build::Tsan).min_cases(300).timeouts(600, 3000));
        }
        v
    }
    fn worker(&self, ctx: &WorkerCtx) -> Box<dyn Worker> {
        crate::worker::set_cpu_budget(900.0);
        crate::worker::set_idle_hang(15.0);
        Box::new(W { std_imports: ctx.phase.starts_with("std-imports"), channels: ctx.phase.starts_with("channel-rounds") })
    }
}

struct W {
    std_imports: bool,
    channels: bool,
}

/// standard-library modules imported cold and concurrently (extern modules with dependencies on
/// each other's types included)
const STD_MODULES: &[&str] = &[
    "std.fs", "std.path", "std.io", "std.json", "std.map", "std.list", "std.string", "std.array", "std.regex", "std.random", "std.process", "std.env", "std.effect", "std.stream", "std.parser",
    "std.writer", "std.state", "std.test", "std.char", "std.float", "std.int", "std.result", "std.option", "std.lazy", "std.reference", "std.channel", "std.thread", "std.byte", "std.unit", "std.debug",
];

fn mname(tag: &str, i: usize) -> String {
    format!("c14m{}_{}", i, tag)
}

/// module i of the pool; may import lower-numbered modules
fn module_src(tag: &str, i: usize, deps: &[usize], with_lazy: bool) -> String {
    let mut s = String::new();
    let _ = writeln!(s, "let fx = import! verif.fx");
    let _ = writeln!(s, "let _ = fx.loaded {}", i);
    let _ = writeln!(s, "let {{ lazy, force }} = import! std.lazy");
    for d in deps {
        let _ = writeln!(s, "let d{} = import! {}", d, mname(tag, *d));
    }
    let mut n = format!("{}", 100 + i);
    for d in deps {
        let _ = write!(n, " #Int+ d{}.n", d);
    }
    let _ = writeln!(s, "let n : Int = {}", n);
    let _ = writeln!(s, "rec let build k acc : Int -> Int -> Int = if k #Int== 0 then acc else build (k #Int- 1) (acc #Int+ k)\nin");
    if with_lazy {
        let _ = writeln!(s, "let l = lazy (\\_ -> fx.tick {} #Int+ build 50 0)", 1000 + i);
        let _ = writeln!(s, "{{ n, f = \\x -> x #Int+ n, arr = [n, n #Int+ 1], s = \"m{}\", l }}", i);
    } else {
        let _ = writeln!(s, "{{ n, f = \\x -> x #Int+ n, arr = [n, n #Int+ 1], s = \"m{}\" }}", i);
    }
    s
}

/// worker program j
fn worker_src(tag: &str, j: usize, imports: &[usize], lazies: &[usize], churn: usize) -> String {
    let mut s = String::new();
    let _ = writeln!(s, "let {{ force }} = import! std.lazy");
    for d in imports {
        let _ = writeln!(s, "let d{} = import! {}", d, mname(tag, *d));
    }
    let _ = writeln!(s, "rec let churn k acc : Int -> Array Int -> Array Int = if k #Int== 0 then acc else churn (k #Int- 1) [k, k #Int+ {}, k #Int* 2]\nin", j);
    let _ = writeln!(s, "let a = churn {} []", churn);
    let mut parts = vec![format!("{}", j), "a".to_string()];
    for d in imports {
        parts.push(format!("d{}.f {}", d, j));
        parts.push(format!("d{}.arr", d));
        parts.push(format!("d{}.s", d));
    }
    for d in lazies {
        parts.push(format!("force d{}.l", d));
    }
    let _ = writeln!(s, "({})", parts.join(", "));
    s
}

fn plain_vm(rt: Option<&tokio::runtime::Runtime>, prelude: bool) -> RootedThread {
    let vm = match rt {
        Some(rt) => rt.block_on(gluon::new_vm_async()),
        None => gluon::new_vm(),
    };
    Settings { prelude, ..Settings::PLAIN }.apply(&vm);
    crate::fx::register(&vm);
    vm
}

impl Worker for W {
    fn gen(&mut self, rng: &mut Rng, idx: u64) -> Option<Value> {
        if self.channels {
            let tag = format!("{:x}", rng.next() & 0xfffff);
            let nthreads = 1 + rng.below(6);
            let counts: Vec<usize> = (0..nthreads).map(|_| *rng.pick(&[1usize, 5, 20, 60, 150])).collect();
            return Some(json!({"channel_round": true, "tag": tag, "counts": counts, "churn": *rng.pick(&[50u64, 400, 3000]), "stress": *rng.pick(&[0usize, 0, 7, 101]), "sched_seed": rng.next() >> 1,
                               "key": {"driver": "threads", "channel_round": true}}));
        }
        if self.std_imports {
            let nthreads = *rng.pick(&[2usize, 3, 4, 6, 8]);
            let tag = format!("{:x}", rng.next() & 0xfffff);
            let mut workers = Vec::new();
            for j in 0..nthreads {
                let k = 1 + rng.below(3);
                let mut src = String::new();
                for _ in 0..k {
                    let _ = writeln!(src, "let _ = import! {}", rng.pick(STD_MODULES));
                }
                let _ = writeln!(src, "{}", j);
                workers.push(json!({"name": format!("c14s{}_{}", j, tag), "src": src, "imports": []}));
            }
            let driver = if rng.chance(1, 2) { "tokio" } else { "threads" };
            return Some(json!({"modules": [], "workers": workers, "stress": 0, "sched_seed": rng.next() >> 1, "driver": driver, "key": {"driver": driver, "std_imports": true}}));
        }
        let tag = format!("{:x}", rng.next() & 0xfffff);
        let nmods = 3 + rng.below(4);
        let mut modules = Vec::new();
        let mut lazy_mods = Vec::new();
        for i in 0..nmods {
            let deps: Vec<usize> = (0..i).filter(|_| rng.chance(1, 3)).collect();
            let with_lazy = rng.chance(1, 2);
            if with_lazy {
                lazy_mods.push(i);
            }
            modules.push(json!({"name": mname(&tag, i), "src": module_src(&tag, i, &deps, with_lazy), "deps": deps}));
        }
        let nthreads = *rng.pick(&[2usize, 2, 3, 4, 4, 6, 8, 8, 12, 16]);
        let mut workers = Vec::new();
        for j in 0..nthreads {
            let mut imports: Vec<usize> = (0..nmods).filter(|_| rng.chance(1, 2)).collect();
            if imports.is_empty() || rng.chance(1, 3) {
                // few modules, many threads: make a hot module likely
                if !imports.contains(&(nmods - 1)) {
                    imports.push(nmods - 1);
                }
            }
            let lazies: Vec<usize> = imports.iter().cloned().filter(|m| lazy_mods.contains(m)).collect();
            let churn = *rng.pick(&[0usize, 10, 100, 400]);
            workers.push(json!({"name": format!("c14w{}_{}", j, tag), "src": worker_src(&tag, j, &imports, &lazies, churn), "imports": imports}));
        }
        let stress = *rng.pick(&[0usize, 0, 1, 3, 17, 101]);
        let driver = if rng.chance(1, 3) { "tokio" } else { "threads" };
        let _ = idx;
        Some(json!({"modules": modules, "workers": workers, "stress": stress, "sched_seed": rng.next() >> 1, "driver": driver, "key": {"driver": driver}}))
    }

    fn run(&mut self, case: &Value) -> CaseResult {
        if case["channel_round"] == true {
            return run_channel_round(case);
        }
        let hash = hash_str(&case.to_string());
        let modules: Vec<(String, String)> = case["modules"].as_array().map(|a| a.iter().map(|m| (m["name"].as_str().unwrap_or("").to_string(), m["src"].as_str().unwrap_or("").to_string())).collect()).unwrap_or_default();
        let workers: Vec<(String, String)> = case["workers"].as_array().map(|a| a.iter().map(|m| (m["name"].as_str().unwrap_or("").to_string(), m["src"].as_str().unwrap_or("").to_string())).collect()).unwrap_or_default();
        let stress = case["stress"].as_u64().unwrap_or(0) as usize;
        let driver = case["driver"].as_str().unwrap_or("threads").to_string();
        let sched_seed = case["sched_seed"].as_u64().unwrap_or(1);
        let prelude = case["key"]["std_imports"] == true;
        let sig = |kind: &str| json!({"kind": kind, "driver": driver});
        // ---- solo results: each program alone on its own fresh VM
        let mut solo = Vec::new();
        for (name, src) in &workers {
            let vm = plain_vm(None, prelude);
            for (m, s) in &modules {
                vm.get_database_mut().add_module(m.clone(), s);
            }
            let o = run_program(&vm, name, src);
            if let Outcome::Error(c, m) = &o {
                return CaseResult::inconclusive(hash, format!("solo run of {} failed: [{}] {}", name, c, m));
            }
            solo.push(o);
        }
        let _ = crate::fx::take_log();
        // which modules must be loaded (transitively) by the union of workers
        let mut needed: BTreeMap<usize, ()> = BTreeMap::new();
        let deps: Vec<Vec<usize>> = case["modules"].as_array().map(|a| a.iter().map(|m| m["deps"].as_array().map(|d| d.iter().filter_map(|x| x.as_u64().map(|x| x as usize)).collect()).unwrap_or_default()).collect()).unwrap_or_default();
        let mut import_count: BTreeMap<usize, usize> = BTreeMap::new();
        for w in case["workers"].as_array().cloned().unwrap_or_default() {
            let mut todo: Vec<usize> = w["imports"].as_array().map(|d| d.iter().filter_map(|x| x.as_u64().map(|x| x as usize)).collect()).unwrap_or_default();
            let mut mine = BTreeMap::new();
            while let Some(m) = todo.pop() {
                if mine.insert(m, ()).is_none() {
                    todo.extend(deps.get(m).cloned().unwrap_or_default());
                }
            }
            for m in mine.keys() {
                needed.insert(*m, ());
                *import_count.entry(*m).or_insert(0) += 1;
            }
        }
        // ---- the parallel round
        let n = workers.len();
        let rt = if driver == "tokio" {
            match tokio::runtime::Builder::new_multi_thread().worker_threads(n.min(16)).enable_all().build() {
                Ok(rt) => Some(rt),
                Err(e) => return CaseResult::inconclusive(hash, format!("tokio runtime: {}", e)),
            }
        } else {
            None
        };
        let vm = plain_vm(rt.as_ref(), prelude);
        for (m, s) in &modules {
            vm.get_database_mut().add_module(m.clone(), s);
        }
        let children: Vec<RootedThread> = match workers.iter().map(|_| vm.new_thread()).collect::<Result<Vec<_>, _>>() {
            Ok(c) => c,
            Err(e) => return CaseResult::inconclusive(hash, format!("new_thread failed: {}", e)),
        };
        verif::reset_counters();
        verif::set_sched_seed(sched_seed);
        verif::set_gc_stress(stress);
        let _ = verif::take_sched_log();
        let results: Vec<Outcome> = if let Some(rt) = &rt {
            let out = rt.block_on(async {
                let mut handles = Vec::new();
                for (child, (name, src)) in children.iter().cloned().zip(workers.iter().cloned()) {
                    handles.push(tokio::spawn(async move {
                        match child.run_expr_async::<gluon::vm::api::OpaqueValue<RootedThread, gluon::vm::api::Hole>>(&name, &src).await {
                            Ok((v, t)) => {
                                let mut s = String::new();
                                render(v.get_ref(), &mut s, 0);
                                Outcome::Value(s, t.to_string())
                            }
                            Err(e) => {
                                let (c, m) = classify_error(&e);
                                Outcome::Error(c, m)
                            }
                        }
                    }));
                }
                let mut out = Vec::new();
                for h in handles {
                    out.push(h.await.unwrap_or_else(|e| Outcome::Error("join".into(), e.to_string())));
                }
                out
            });
            out
        } else {
            let barrier = Arc::new(Barrier::new(n));
            let mut handles = Vec::new();
            for (child, (name, src)) in children.iter().cloned().zip(workers.iter().cloned()) {
                let barrier = barrier.clone();
                handles.push(std::thread::Builder::new().stack_size(64 << 20).spawn(move || {
                    barrier.wait();
                    run_program(&child, &name, &src)
                }));
            }
            handles.into_iter().map(|h| match h {
                Ok(h) => h.join().unwrap_or_else(|_| Outcome::Error("thread-panic".into(), crate::worker::take_panic().map(|p| format!("{}: {}", p.0, p.1)).unwrap_or_default())),
                Err(e) => Outcome::Error("spawn".into(), e.to_string()),
            }).collect()
        };
        verif::set_gc_stress(0);
        verif::set_sched_seed(0);
        let sched = verif::take_sched_log();
        let log = crate::fx::take_log();
        let mut res = CaseResult::ok(hash, import_count.values().any(|c| *c >= 2) || case["key"]["std_imports"] == true);
        // ---- results equal solo results
        for (j, (got, want)) in results.iter().zip(solo.iter()).enumerate() {
            if got != want {
                let kind = match got {
                    Outcome::Error(c, _) if c == "thread-panic" => "thread-panicked",
                    Outcome::Error(..) => "parallel-run-failed",
                    _ => "result-differs-from-solo",
                };
                let mut sg = sig(kind);
                // the whole round counts: the thread compared first may be a victim of a panic
                // in another thread (poisoned lock, "concurrent salsa query panicked")
                let text = results.iter().map(|o| o.short()).collect::<Vec<_>>().join("\n");
                if let Some((loc, _)) = crate::worker::take_panic() {
                    sg["panic_location"] = json!(crate::worker::strip_repo(&loc));
                }
                sg["cause"] = json!(if text.contains("UndefinedBinding(\"std.") || text.contains("Could not find type 'std.") {
                    "std-type-not-yet-bound-during-parallel-import"
                } else if text.contains("exit scope above current") || text.contains("Expected extern") || text.contains("Expected closure state") || text.contains("did not belong to the current frame") {
                    "frame-stack-mismatch"
                } else if text.contains("PoisonError") || text.contains("concurrent salsa query panicked") {
                    "collateral-of-a-panicked-thread"
                } else {
                    "other"
                });
                return CaseResult::violation(
                    hash,
                    format!("{} threads ({} driver, gc stress {}): thread {} got `{}`, alone it gets `{}`", n, driver, stress, j, clip(&got.short()), clip(&want.short())),
                    sg,
                );
            }
        }
        // ---- module bodies and lazy computations ran exactly once
        let mut loaded: BTreeMap<i64, u32> = BTreeMap::new();
        let mut ticks: BTreeMap<i64, u32> = BTreeMap::new();
        let mut order = Vec::new();
        for (name, v) in &log {
            if name == "loaded" {
                *loaded.entry(*v).or_insert(0) += 1;
                order.push(*v);
            } else if name == "tick" {
                *ticks.entry(*v).or_insert(0) += 1;
            }
        }
        for (m, c) in &loaded {
            if *c != 1 {
                return CaseResult::violation(hash, format!("{} threads ({} driver): the body of module {} ran {} times ({} threads import it)", n, driver, m, c, import_count.get(&(*m as usize)).cloned().unwrap_or(0)), sig("module-body-ran-more-than-once"));
            }
        }
        for m in needed.keys() {
            if !loaded.contains_key(&(*m as i64)) {
                return CaseResult::violation(hash, format!("module {} is imported but its body never ran", m), sig("module-body-never-ran"));
            }
        }
        for (t, c) in &ticks {
            if *c != 1 {
                return CaseResult::violation(hash, format!("{} threads ({} driver): the computation of the lazy value of module {} ran {} times", n, driver, t - 1000, c), sig("lazy-computation-ran-more-than-once"));
            }
        }
        // ---- heap oracle at quiescence
        let rep = vm.verif_check_heaps();
        res.stat("heap_walks", 1).stat("objects_walked", rep.live_objects as u64).stat("edges_checked", rep.edges as u64);
        if let Some(e) = rep.bad.first() {
            let short = |t: &str| t.rsplit("::").next().unwrap_or(t).trim_end_matches('>').to_string();
            return CaseResult::violation(
                hash,
                format!("after the round: {} edge from {} to a {}", if e.to_heap.is_none() { "dangling" } else { "ownership-violating" }, if e.from.is_some() { short(e.from_type) } else { "a root".into() }, short(e.type_name)),
                json!({"kind": if e.to_heap.is_none() { "dangling-edge" } else { "ownership-edge" }, "holder": if e.from.is_some() { short(e.from_type) } else { "root".into() }, "target_type": short(e.type_name), "driver": driver}),
            );
        }
        drop(children);
        res.stat("rounds", 1).stat("threads_run", n as u64).stat("results_compared_with_solo", n as u64);
        res.stat("module_bodies_counted", loaded.len() as u64).stat("lazy_computations_counted", ticks.len() as u64);
        res.stat("modules_imported_by_two_or_more_threads", import_count.values().filter(|c| **c >= 2).count() as u64);
        res.stat("sched_points_passed", sched.len() as u64);
        res.stat("forced_collections", verif::FORCED_COLLECTIONS.load(std::sync::atomic::Ordering::SeqCst) as u64);
        // schedule signature: order of first module-body runs + hash of the sched-point log
        let mut sh = String::new();
        for (n, v) in &sched {
            let _ = write!(sh, "{}{};", n, v);
        }
        res.feat(format!("sched:{:?}:{:x}", order, hash_str(&sh) & 0xffff));
        res.feat(format!("threads-{}", n));
        res.feat(format!("driver-{}", driver));
        res.feat(format!("stress-{}", stress));
        res
    }
}

fn clip(s: &str) -> String {
    s.chars().take(240).collect()
}


/// One channel owned by the root thread; every child thread (own OS thread) sends strings it
/// builds at run time while the root's OS thread keeps allocating (so that the root collects and
/// scans its children); afterwards the root drains the channel: every message exactly once, in
/// sending order per sender.
fn run_channel_round(case: &Value) -> CaseResult {
    use std::sync::atomic::{AtomicBool, Ordering};
    let hash = hash_str(&case.to_string());
    let tag = case["tag"].as_str().unwrap_or("t").to_string();
    let counts: Vec<usize> = case["counts"].as_array().map(|a| a.iter().filter_map(|x| x.as_u64().map(|x| x as usize)).collect()).unwrap_or_default();
    let churn_n = case["churn"].as_u64().unwrap_or(100) as i64;
    let stress = case["stress"].as_u64().unwrap_or(0) as usize;
    let vm = gluon::new_vm();
    Settings { prelude: true, run_io: true, ..Settings::PLAIN }.apply(&vm);
    // the channel lives in the root thread; its two ends are handed to the threads by the host
    let chan_val: gluon::vm::api::OpaqueValue<RootedThread, gluon::vm::api::Hole> = match vm.run_expr(&format!("c14chan_{}", tag), "let { channel } = import! std.channel\nchannel \"\"\n") {
        Ok((v, _)) => v,
        Err(e) => return CaseResult::inconclusive(hash, format!("channel: {}", e)),
    };
    let (sender, receiver) = match chan_val.get_ref() {
        gluon::vm::api::ValueRef::Data(d) if d.len() == 2 => (vm.root_value(d.get_variant(0).unwrap()), vm.root_value(d.get_variant(1).unwrap())),
        _ => return CaseResult::inconclusive(hash, "channel value is not a two-field record"),
    };
    let (sender, receiver): (gluon::vm::thread::RootedValue<RootedThread>, gluon::vm::thread::RootedValue<RootedThread>) = (sender, receiver);
    let churn_src = "let array = import! std.array\nrec let churn n acc : Int -> Int -> Int = if n == 0 then acc else churn (n - 1) (array.len [n, n, n] + acc - 3)\nchurn\n";
    let mut churn: gluon::vm::api::OwnedFunction<fn(i64, i64) -> i64> = match vm.run_expr(&format!("c14churn_{}", tag), churn_src) {
        Ok((f, _)) => f,
        Err(e) => return CaseResult::inconclusive(hash, format!("churn function: {}", e)),
    };
    let workers: Vec<(String, String)> = counts
        .iter()
        .enumerate()
        .map(|(j, k)| {
            (
                format!("c14cw{}_{}", j, tag),
                format!(
                    "let {{ wrap }} = import! std.applicative\nlet io @ {{ ? }} = import! std.io\nlet {{ send }} = import! std.channel\n\\sender -> \\u ->\n    rec let go i =\n        if i == {} then wrap i\n        else\n            do _ = send sender (\"t{}m\" ++ show i)\n            go (i + 1)\n    go 0\n",
                    k, j
                ),
            )
        })
        .collect();
    let children: Vec<RootedThread> = match workers.iter().map(|_| vm.new_thread()).collect::<Result<Vec<_>, _>>() {
        Ok(c) => c,
        Err(e) => return CaseResult::inconclusive(hash, format!("new_thread failed: {}", e)),
    };
    verif::reset_counters();
    verif::set_sched_seed(case["sched_seed"].as_u64().unwrap_or(1));
    verif::set_gc_stress(stress);
    let n = workers.len();
    let barrier = Arc::new(Barrier::new(n + 1));
    let running = Arc::new(AtomicBool::new(true));
    let mut handles = Vec::new();
    type Opq = gluon::vm::api::OpaqueValue<RootedThread, gluon::vm::api::Hole>;
    for (child, (name, src)) in children.iter().cloned().zip(workers.iter().cloned()) {
        // compile the sender function on the child and give it the sender before anything runs
        // concurrently
        let f: Result<(gluon::vm::api::OwnedFunction<fn(Opq) -> Opq>, _), _> = child.run_expr(&name, &src);
        let mut f = match f {
            Ok((f, _)) => f,
            Err(e) => return CaseResult::inconclusive(hash, format!("sender program rejected: {}", e.to_string().lines().next().unwrap_or(""))),
        };
        let action: Opq = match f.call(gluon::vm::api::OpaqueValue::from_value(sender.clone())) {
            Ok(a) => a,
            Err(e) => return CaseResult::inconclusive(hash, format!("handing over the sender failed: {}", e)),
        };
        let barrier = barrier.clone();
        handles.push(std::thread::Builder::new().stack_size(64 << 20).spawn(move || {
            let mut run: gluon::vm::api::OwnedFunction<fn(()) -> gluon::vm::api::IO<i64>> = gluon::vm::api::Getable::from_value(&child, action.get_variant());
            barrier.wait();
            match run.call(()) {
                Ok(gluon::vm::api::IO::Value(v)) => Outcome::Value(format!("{}", v), String::new()),
                Ok(gluon::vm::api::IO::Exception(e)) => Outcome::Error("io-exception".into(), e),
                Err(e) => {
                    let (c, m) = classify_error(&e.into());
                    Outcome::Error(c, m)
                }
            }
        }));
    }
    barrier.wait();
    // the owner of the channel keeps allocating (and therefore collecting) while the sends run
    let mut churned = 0u64;
    let done = {
        let running = running.clone();
        std::thread::spawn(move || {
            let out: Vec<Outcome> = handles
                .into_iter()
                .map(|h| match h {
                    Ok(h) => h.join().unwrap_or_else(|_| Outcome::Error("thread-panic".into(), String::new())),
                    Err(e) => Outcome::Error("spawn".into(), e.to_string()),
                })
                .collect();
            running.store(false, Ordering::SeqCst);
            out
        })
    };
    while running.load(Ordering::SeqCst) {
        let _ = churn.call(churn_n, 0);
        churned += 1;
    }
    let results = done.join().unwrap_or_default();
    verif::set_gc_stress(0);
    verif::set_sched_seed(0);
    let mut res = CaseResult::ok(hash, n >= 2);
    for (j, (got, k)) in results.iter().zip(counts.iter()).enumerate() {
        let ok = matches!(got, Outcome::Value(v, _) if v.trim() == format!("{}", k));
        if !ok {
            return CaseResult::violation(hash, format!("channel round: sender {} returned `{}` instead of {}", j, got.short().chars().take(200).collect::<String>(), k), json!({"kind": "sender-failed", "driver": "threads"}));
        }
    }
    // drain
    let drain_src = "let { wrap } = import! std.applicative\nlet io @ { ? } = import! std.io\nlet { recv } = import! std.channel\nlet { Result } = import! std.types\nlet array = import! std.array\n\\receiver ->\n    rec let drain acc =\n        do r = recv receiver\n        match r with\n        | Ok s -> drain (array.append acc [s])\n        | Err _ -> wrap acc\n    drain []\n";
    let drain: Result<(gluon::vm::api::OwnedFunction<fn(Opq) -> gluon::vm::api::IO<Vec<String>>>, _), _> = vm.run_expr(&format!("c14drain_{}", tag), drain_src);
    let got: Vec<String> = match drain {
        Ok((mut f, _)) => match f.call(gluon::vm::api::OpaqueValue::from_value(receiver.clone())) {
            Ok(gluon::vm::api::IO::Value(v)) => v,
            Ok(gluon::vm::api::IO::Exception(e)) => return CaseResult::violation(hash, format!("draining the channel failed: {}", e), json!({"kind": "drain-failed", "driver": "threads"})),
            Err(e) => return CaseResult::violation(hash, format!("draining the channel failed: {}", e), json!({"kind": "drain-failed", "driver": "threads"})),
        },
        Err(e) => return CaseResult::inconclusive(hash, format!("drain program rejected: {}", e.to_string().lines().next().unwrap_or(""))),
    };
    let mut next: Vec<usize> = vec![0; n];
    for s in &got {
        let parsed = s.strip_prefix('t').and_then(|r| r.split_once('m')).and_then(|(j, i)| Some((j.parse::<usize>().ok()?, i.parse::<usize>().ok()?)));
        match parsed {
            Some((j, i)) if j < n && i == next[j] => next[j] += 1,
            _ => {
                return CaseResult::violation(hash, format!("channel round: message `{}` arrives out of order or twice (next expected per sender: {:?})", s, next), json!({"kind": "channel-order-or-duplicate", "driver": "threads"}));
            }
        }
    }
    if next != counts {
        return CaseResult::violation(hash, format!("channel round: messages lost: received per sender {:?}, sent {:?}", next, counts), json!({"kind": "channel-message-lost", "driver": "threads"}));
    }
    let rep = vm.verif_check_heaps();
    if let Some(e) = rep.bad.first() {
        let short = |t: &str| t.rsplit("::").next().unwrap_or(t).trim_end_matches('>').to_string();
        return CaseResult::violation(hash, format!("after the channel round: bad heap edge to a {}", short(e.type_name)), json!({"kind": if e.to_heap.is_none() { "dangling-edge" } else { "ownership-edge" }, "target_type": short(e.type_name), "driver": "threads"}));
    }
    res.stat("channel_rounds", 1).stat("messages_delivered_exactly_once_in_order", got.len() as u64).stat("owner_allocation_loops_during_sends", churned).stat("threads_run", n as u64);
    res.stat("forced_collections", verif::FORCED_COLLECTIONS.load(std::sync::atomic::Ordering::SeqCst) as u64);
    res.feat(format!("channel-senders-{}", n));
    res
}
