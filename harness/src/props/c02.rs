//! C02 — type soundness: programs the checker accepts never go wrong (no host panic, no internal
//! shape complaint, returned value has the shape of the reported type), under every compiler
//! setting and across module imports.
use crate::lang::ast::*;
use crate::lang::gen::{gen_program, GenOpts};
use crate::lang::print::{print_program, Style};
use crate::lang::reduce::mutate_ast;
use crate::prop::*;
use crate::rng::{hash_str, Rng};
use crate::shape;
use crate::vmutil::*;
use gluon::vm::api::{Hole, OpaqueValue};
use gluon::{RootedThread, Thread, ThreadExt};
use serde_json::{json, Value};
use std::collections::HashMap;

pub struct C02;

impl Prop for C02 {
    fn id(&self) -> &'static str {
        "C02"
    }
    fn rule(&self) -> &'static str {
        "G-prog programs, AST-level mutants of them (kept only when the real checker accepts them) and multi-module programs (1-3 in-memory modules exporting records of values, functions and types, importing each other) run under the boolean settings prelude x optimize x debug_info x run_io x full_metadata (all 32 for a sample, a pairwise covering array of 8 otherwise); monitors: host panic, internal shape complaints ('Cannot call', 'GetOffset on', ICE...), type-directed walk of the returned value against the reported type; non-trivial = accepted by the checker in >= 1 setting and uses >= 3 construct labels or is a mutant or multi-module; distinct = program text"
    }
    fn assumptions(&self) -> Vec<String> {
        vec!["acceptance is taken from the real checker; runtime failures the semantics defines (explicit error, unmatched pattern, arithmetic) are not 'going wrong'".into()]
    }
    fn phases(&self, tier: Tier) -> Vec<Phase> {
        vec![
            Phase::new("well-typed", tier.pick(1200, 40000)).min_cases(tier.pick(300, 10000)).timeouts(60, tier.pick(300, 1500)),
            Phase::new("mutants", tier.pick(6000, 40000)).min_cases(tier.pick(1500, 8000)).timeouts(60, tier.pick(300, 1500)),
            Phase::new("multi-module", tier.pick(400, 12000)).min_cases(tier.pick(100, 3000)).timeouts(60, tier.pick(300, 1500)),
        ]
    }
    fn worker(&self, ctx: &WorkerCtx) -> Box<dyn Worker> {
        Box::new(W { phase: ctx.phase.clone(), vms: HashMap::new(), tier: ctx.tier })
    }
}

struct W {
    phase: String,
    vms: HashMap<u32, (RootedThread, u32)>,
    tier: Tier,
}

/// pairwise covering array for 5 boolean factors (8 rows)
const COVERING: [u32; 8] = [0b00000, 0b11111, 0b00111, 0b11000, 0b01011, 0b10100, 0b01101, 0b10010];

enum Obs {
    Rejected(String),
    /// the checker itself panicked: not an accepted program (C09's finding)
    FrontEndPanic(String),
    Fine { accepted_value: bool, nodes: u64 },
    Wrong(String, Value),
}

fn observe(vm: &Thread, name: &str, src: &str) -> Obs {
    // mutants may recurse without bound: a small deterministic call budget keeps them cheap
    set_call_budget(vm, 150_000);
    // acceptance is established first, on its own: whatever the front end does to a program it
    // does not accept (including crashing) is C09's business, not C02's
    crate::worker::clear_key();
    crate::worker::note_key(&json!({"not_this_property": true, "stage": "typecheck"}));
    let pre = crate::worker::guarded(|| vm.typecheck_str(&format!("{}_tc", name), src, None).map(|_| ()).map_err(|e| classify_error(&e).0));
    crate::worker::clear_key();
    crate::worker::note_key(&json!({"not_this_property": false, "stage": "compile-and-run"}));
    match pre {
        Ok(Ok(())) => {}
        Ok(Err(class)) => {
            clear_call_budget(vm);
            return Obs::Rejected(class);
        }
        Err((loc, _)) => return Obs::FrontEndPanic(crate::worker::strip_repo(&loc)),
    }
    let res = crate::worker::guarded(|| match vm.run_expr::<OpaqueValue<&Thread, Hole>>(name, src) {
        Ok((v, t)) => {
            let mut st = shape::ShapeStats { nodes: 0, opaque: 0 };
            match shape::check(vm, &t, v.get_ref(), &mut st) {
                Ok(()) => Obs::Fine { accepted_value: true, nodes: st.nodes },
                Err(e) => {
                    // a *value* whose reported type has an open row (`{ x : Int | a }`)
                    let tt = t.to_string();
                    let open_row = tt.split('|').skip(1).any(|rest| {
                        let r = rest.trim_start();
                        let id: String = r.chars().take_while(|c| c.is_ascii_lowercase() || c.is_ascii_digit() || *c == '_').collect();
                        !id.is_empty() && r[id.len()..].trim_start().starts_with('}')
                    });
                    Obs::Wrong(format!("value does not have the shape of its reported type `{}`: {}", t, e), json!({"kind": "shape-mismatch", "open_row_in_value_type": open_row}))
                }
            }
        }
        Err(e) => {
            let (class, msg) = classify_error(&e);
            match class.as_str() {
                "parse" | "typecheck" | "macro" | "multiple" => Obs::Rejected(class),
                "shape" | "ice" => {
                    let full = e.to_string();
                    let what = is_shape_complaint(&full).unwrap_or("ICE");
                    Obs::Wrong(format!("internal failure on an accepted program: {}", msg), json!({"kind": "shape-complaint", "complaint": what}))
                }
                _ => Obs::Fine { accepted_value: false, nodes: 0 },
            }
        }
    });
    match res {
        Ok(o) => {
            clear_call_budget(vm);
            o
        }
        Err((loc, msg)) => Obs::Wrong(
            format!("host panic at {}: {}", loc, msg.lines().next().unwrap_or("")),
            json!({"kind": "host-panic", "location": crate::worker::strip_repo(&loc)}),
        ),
    }
}

impl W {
    fn vm(&mut self, bits: u32, fresh: bool) -> RootedThread {
        let renew = fresh || self.vms.get(&bits).map_or(true, |(_, used)| *used >= 150);
        if renew {
            let vm = vm_with(Settings::from_bits(bits));
            crate::fx::register(&vm);
            self.vms.insert(bits, (vm, 0));
        }
        let e = self.vms.get_mut(&bits).unwrap();
        e.1 += 1;
        e.0.clone()
    }
}

/// The single-module compiler findings (F18, F21, F22) are exercised by the other phases with
/// per-case attribution; the multi-module phase rewrites those features away up front so that it
/// observes cross-module behaviour only.
/// Two misuses of a recursive *value* binding that only mutants contain: the record literal
/// mentions the binding itself outside a lambda (`rec let r = { go = r.go }`), and a projection
/// of a field the literal does not have (`r.x`)
fn rec_value_misuse(e: &Expr) -> (bool, bool) {
    fn mentions_strictly(e: &Expr, name: &str) -> bool {
        match e {
            Expr::Var(v) => v == name,
            Expr::Lam(..) => false,
            _ => crate::lang::reduce::children(e).into_iter().any(|c| mentions_strictly(c, name)),
        }
    }
    let mut recs: Vec<(String, Vec<String>)> = Vec::new();
    let mut strict = false;
    crate::lang::gen::walk(e, &mut |x| {
        if let Expr::LetRec(binds, _) = x {
            for (n, params, v) in binds {
                if params.is_empty() {
                    if let Expr::Record(fs, None) = v {
                        recs.push((n.clone(), fs.iter().map(|f| f.0.clone()).collect()));
                        if fs.iter().any(|(_, fe)| mentions_strictly(fe, n)) {
                            strict = true;
                        }
                    }
                }
            }
        }
    });
    let mut missing = false;
    crate::lang::gen::walk(e, &mut |x| {
        if let Expr::Proj(b_, f) = x {
            if let Expr::Var(v) = &**b_ {
                if let Some((_, fields)) = recs.iter().find(|(n, _)| n == v) {
                    if !fields.contains(f) {
                        missing = true;
                    }
                }
            }
        }
    });
    (strict, missing)
}

fn neutralise_known(p: &mut Program) {
    let b0 = p.body.take().unwrap();
    let b1 = crate::lang::reduce::rec_values_as_functions(&b0);
    let b2 = crate::lang::reduce::tuple_projections_as_patterns(&b1, &p.tuple_vars);
    p.body = Some(crate::lang::reduce::normalise_record_patterns(&b2));
}

fn wrap_module(p: &mut Program, n: i64, dep: Option<&str>) {
    let body = p.body.take().unwrap();
    let mut fields = vec![
        ("value".to_string(), body),
        ("n".to_string(), int(n)),
        ("f".to_string(), Expr::Lam(vec!["mx".into()], b(binop("#Int+", var("mx"), int(n))))),
        ("pair".to_string(), Expr::Lam(vec!["ma".into(), "mb".into()], b(Expr::Tuple(vec![var("mb"), var("ma")])))),
    ];
    if let Some(d) = dep {
        fields.push(("dep".to_string(), binop("#Int*", Expr::Proj(b(var(d)), "n".into()), int(2))));
        fields.push(("depf".to_string(), Expr::Proj(b(var(d)), "f".into())));
    }
    p.body = Some(Expr::Record(fields, None));
}

impl Worker for W {
    fn gen(&mut self, rng: &mut Rng, idx: u64) -> Option<Value> {
        let mut opts = GenOpts::default_ordered();
        opts.max_depth = 3 + rng.below(4) as u32;
        opts.node_budget = 30 + rng.below(80) as i32;
        opts.fail_pct = 20;
        let style_bits = rng.next() as u32 & 0b11011;
        let style = Style::from_bits(style_bits);
        let all32 = match self.tier {
            Tier::Quick => idx % 16 == 0,
            Tier::Thorough => idx % 4 == 0,
        };
        let settings: Vec<u32> = if all32 || (self.phase == "multi-module" && self.tier == Tier::Thorough) { (0..32).collect() } else { COVERING.to_vec() };
        match self.phase.as_str() {
            "multi-module" => {
                if idx % 10 == 3 {
                    // IO-typed module imported under run_io (the F7 scenario), kept as a fixed family
                    let tag = format!("{:x}", rng.next() & 0xffff);
                    let mname = format!("c02io_{}", tag);
                    let module = "let { wrap } = import! std.applicative\nlet io @ { ? } = import! std.io\nwrap 5\n".to_string();
                    let main = format!("let {{ wrap }} = import! std.applicative\nlet io @ {{ ? }} = import! std.io\nlet m = import! {}\ndo x = m\nwrap (x + 1)\n", mname);
                    return Some(json!({"kind": "io-module", "modules": [[mname, module]], "src": main, "settings": [0b01011, 0b11111, 0b00011], "feats": ["io-module"], "key": {"family": "io-module"}}));
                }
                if idx % 10 == 7 {
                    // a value binding that is a call, inside a `rec` group (the F47 scenario), and
                    // IO actions with a polymorphic result under run_io (the F46 scenario)
                    let n = rng.below(50);
                    if rng.chance(1, 3) {
                        // a record literal whose fields are in another order than the annotated
                        // parameter type (the F53 scenario)
                        let src = format!("let f r : {{ x : Int, y : String }} -> Int = r.x #Int+ {}\n(f {{ y = \"s\", x = 1 }}, f {{ x = 2, y = \"t\" }})\n", n);
                        return Some(json!({"kind": "record-literal-reordered", "modules": [], "src": src, "settings": [0b00000, 0b00010, 0b00110, 0b00001], "feats": ["record-literal-reordered"],
                                           "key": {"family": "record-literal-reordered", "permuted_record_literal": true}}));
                    }
                    let (kind, src) = if rng.chance(1, 2) {
                        ("rec-group-call-binding", format!("let g x = x #Int+ {}\nrec let f x = if x #Int== 0 then 0 else f (x #Int- 1)\nlet l = g {}\nin (f 3, l)\n", n, n))
                    } else {
                        ("io-polymorphic-result", format!("let {{ wrap }} = import! std.applicative\nlet io @ {{ ? }} = import! std.io\nwrap (\\x -> (x, {}))\n", n))
                    };
                    return Some(json!({"kind": kind, "modules": [], "src": src, "settings": [0b01011, 0b11111, 0b00011, 0b00000, 0b00110], "feats": [kind], "key": {"family": kind}}));
                }
                let k = 1 + rng.below(3);
                let tag = format!("{:x}", rng.next() & 0xffffff);
                opts.canonical_record_patterns = true;
                let mut modules = Vec::new();
                let mut names: Vec<String> = Vec::new();
                for i in 0..k {
                    let mut g = gen_program(rng, opts.clone());
                    let dep = if i > 0 && rng.chance(2, 3) { Some(names[rng.below(i)].clone()) } else { None };
                    if let Some(d) = &dep {
                        g.program.extra_preamble = format!("let {} = import! {}\n", d, d);
                    }
                    neutralise_known(&mut g.program);
                    wrap_module(&mut g.program, 10 + i as i64, dep.as_deref());
                    let name = format!("c02m{}_{}", i, tag);
                    modules.push(json!([name, print_program(&g.program, style)]));
                    names.push(name);
                }
                let mut g = gen_program(rng, opts);
                let mut pre = String::new();
                for n in &names {
                    pre.push_str(&format!("let {} = import! {}\n", n, n));
                }
                g.program.extra_preamble = pre;
                neutralise_known(&mut g.program);
                let body = g.program.body.take().unwrap();
                let m0 = &names[0];
                let ml = &names[names.len() - 1];
                let uses = Expr::Tuple(vec![
                    Expr::Proj(b(var(m0)), "value".into()),
                    app(Expr::Proj(b(var(ml)), "f".into()), vec![Expr::Proj(b(var(m0)), "n".into())]),
                    app(Expr::Proj(b(var(ml)), "pair".into()), vec![int(1), Expr::Lit(Lit::Str("s".into()))]),
                    body,
                ]);
                g.program.body = Some(uses);
                Some(json!({"kind": "multi-module", "modules": modules, "src": print_program(&g.program, style), "settings": settings, "feats": ["multi-module"]}))
            }
            "mutants" => {
                let mut twin_rng = rng.clone();
                let mut twin_opts = opts.clone();
                twin_opts.canonical_record_patterns = true;
                let mut twin = gen_program(&mut twin_rng, twin_opts).program;
                let g = gen_program(rng, opts);
                let mut prog = g.program.clone();
                let mut how = Vec::new();
                for _ in 0..(1 + rng.below(2)) {
                    // the same mutation (same PRNG state, same node numbering) on the twin
                    let mut r2 = rng.clone();
                    let (b2, h) = mutate_ast(prog.body.as_ref().unwrap(), rng);
                    let (t2, _) = mutate_ast(twin.body.as_ref().unwrap(), &mut r2);
                    prog.body = Some(b2);
                    twin.body = Some(t2);
                    how.push(h);
                }
                let twin_json = if twin != prog { serde_json::to_value(&twin).unwrap() } else { Value::Null };
                let mut feats: Vec<String> = g.feats.iter().map(|s| s.to_string()).collect();
                feats.push("mutant".into());
                let permuted = how.contains(&"permute-record-fields");
                let (strict_self, missing_field) = rec_value_misuse(prog.body.as_ref().unwrap());
                Some(json!({"kind": "mutant", "modules": [], "src": print_program(&prog, style), "settings": settings, "feats": feats, "mutations": how,
                            "style_bits": style_bits, "ast": serde_json::to_value(&prog).unwrap(), "ast_twin": twin_json,
                            "key": {"permuted_record_literal": permuted, "rec_value_strict_self_reference": strict_self, "rec_value_missing_field_projection": missing_field}}))
            }
            _ => {
                let mut twin_rng = rng.clone();
                let mut twin_opts = opts.clone();
                twin_opts.canonical_record_patterns = true;
                let twin = gen_program(&mut twin_rng, twin_opts).program;
                let g = gen_program(rng, opts);
                let twin_json = if twin != g.program { serde_json::to_value(&twin).unwrap() } else { Value::Null };
                Some(json!({"ast_twin": twin_json, "kind": "well-typed", "modules": [], "src": print_program(&g.program, style), "settings": settings, "feats": g.feats,
                            "style_bits": style_bits, "ast": serde_json::to_value(&g.program).unwrap()}))
            }
        }
    }

    fn run(&mut self, case: &Value) -> CaseResult {
        let src = case["src"].as_str().unwrap().to_string();
        let h = hash_str(&format!("{}{}", src, case["modules"]));
        let settings: Vec<u32> = case["settings"].as_array().unwrap().iter().map(|x| x.as_u64().unwrap() as u32).collect();
        let modules: Vec<(String, String)> = case["modules"].as_array().unwrap().iter().map(|m| (m[0].as_str().unwrap().to_string(), m[1].as_str().unwrap().to_string())).collect();
        let feats: Vec<String> = case["feats"].as_array().map(|a| a.iter().filter_map(|x| x.as_str().map(String::from)).collect()).unwrap_or_default();
        let name = format!("c02_{:x}", h);
        let mut r = CaseResult::ok(h, false);
        let mut accepted = 0u64;
        for bits in settings {
            let vm = self.vm(bits, !modules.is_empty());
            let mut module_ok = true;
            for (n, s) in &modules {
                match crate::worker::guarded(|| vm.load_script(n, s).map_err(|e| classify_error(&e))) {
                    Ok(Ok(())) => {}
                    Ok(Err((class, msg))) => {
                        if class == "shape" || class == "ice" {
                            self.vms.remove(&bits);
                            return CaseResult::violation(h, format!("internal failure loading module {} under settings {:05b}: {}", n, bits, msg), json!({"kind": "shape-complaint", "stage": "module-load"}));
                        }
                        module_ok = false;
                        break;
                    }
                    Err((loc, msg)) => {
                        self.vms.remove(&bits);
                        let mut v = CaseResult::violation(
                            h,
                            format!("host panic loading module {} under settings {:05b} at {}: {}", n, bits, loc, msg.lines().next().unwrap_or("")),
                            crate::worker::merge_key(json!({"kind": "host-panic", "location": crate::worker::strip_repo(&loc)}), case),
                        );
                        v.stats = r.stats;
                        return v;
                    }
                }
            }
            if !module_ok {
                r.stat("module_rejected", 1);
                continue;
            }
            r.stat("runs", 1);
            match observe(&vm, &name, &src) {
                Obs::Rejected(_) => {
                    r.stat("rejected_by_checker", 1);
                }
                Obs::FrontEndPanic(_) => {
                    r.stat("front_end_panics_seen_c09", 1);
                    self.vms.remove(&bits);
                }
                Obs::Fine { accepted_value, nodes } => {
                    accepted += 1;
                    r.stat("accepted_runs", 1).stat("value_nodes_shape_checked", nodes);
                    if accepted_value {
                        r.stat("values_shape_checked", 1);
                    } else {
                        // a failed run leaves junk on the stack (C06): do not reuse
                        self.vms.remove(&bits);
                    }
                }
                Obs::Wrong(msg, mut sig) => {
                    self.vms.remove(&bits);
                    sig["settings"] = json!(format!("{:05b}", bits));
                    // counterfactual attribution to known compiler findings (same rewrites as C01)
                    if let Ok(prog) = serde_json::from_value::<Program>(case["ast"].clone()) {
                        let style = Style::from_bits(case["style_bits"].as_u64().unwrap_or(1) as u32);
                        let body = prog.body.clone().unwrap();
                        let rewrites: Vec<(&str, Expr)> = vec![
                            ("rec-value-as-rec-function", crate::lang::reduce::rec_values_as_functions(&body)),
                            ("tuple-projection-as-pattern", crate::lang::reduce::tuple_projections_as_patterns(&body, &prog.tuple_vars)),
                            ("record-patterns-normalised", crate::lang::reduce::normalise_record_patterns(&body)),
                        ];
                        let mut rewrites = rewrites;
                        if let Ok(tw) = serde_json::from_value::<Program>(case["ast_twin"].clone()) {
                            let tb = tw.body.clone().unwrap();
                            rewrites.push(("record-patterns-complete-in-type-order", tb.clone()));
                            let t2 = crate::lang::reduce::rec_values_as_functions(&tb);
                            rewrites.push(("all-known-rewrites", crate::lang::reduce::tuple_projections_as_patterns(&t2, &prog.tuple_vars)));
                        }
                        for (rname, b2) in rewrites {
                            if b2 == body {
                                continue;
                            }
                            let mut p2 = prog.clone();
                            p2.body = Some(b2);
                            let vm2 = vm_with(Settings::from_bits(bits));
                            if let Obs::Fine { .. } = observe(&vm2, &format!("{}_cf", name), &print_program(&p2, style)) {
                                sig["neutralised_by"] = json!(rname);
                                break;
                            }
                        }
                    }
                    let sig = crate::worker::merge_key(sig, case);
                    let mut v = CaseResult::violation(h, format!("under settings {:05b} (prelude,optimize,debug_info,run_io,full_metadata from the right): {}", bits, msg), sig);
                    v.stats = r.stats;
                    v.features = feats;
                    return v;
                }
            }
        }
        r.nontrivial = accepted > 0 && (feats.len() >= 3 || case["kind"] != "well-typed");
        if accepted > 0 {
            r.stat("programs_accepted", 1);
            if case["kind"] == "mutant" {
                r.stat("mutants_accepted", 1);
            }
        }
        if accepted == 0 {
            // nothing was accepted anywhere: outside the quantifier
            r.verdict = Verdict::Skip;
        }
        for f in feats {
            r.feat(f);
        }
        r
    }
}
