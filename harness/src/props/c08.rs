//! C08 — parsing follows the grammar, layout and fixity rules: print -> parse round trip with span
//! self-consistency, and operator chains against a shunting-yard reference.
use crate::lang::ast::*;
use crate::lang::fromgluon::{convert, normalise};
use crate::lang::gen::{gen_program, GenOpts};
use crate::lang::print::{print_expr, Style};
use crate::lang::reduce::mutate_ast;
use crate::prop::*;
use crate::rng::{hash_str, Rng};
use crate::vmutil::*;
use gluon::base::symbol::{SymbolModule, Symbols};
use gluon::base::types::TypeCache;
use gluon::RootedThread;
use serde_json::{json, Value};

pub struct C08;

impl Prop for C08 {
    fn id(&self) -> &'static str {
        "C08"
    }
    fn rule(&self) -> &'static str {
        "phase roundtrip: harness ASTs (G-prog programs and AST-level mutants of them, parsing does not need well-typedness) printed in every combination of the style switches (explicit `in` / layout, redundant parentheses, comments + blank lines, indentation step, compact / expanded) and parsed with the real parser; the result converted back must equal the AST, every node's span must lie in the input on char boundaries inside its parent's span, and the text of a sampled node's span (padded to its column) must re-parse to the same subtree. phase chains: ALL operator chains up to the bound over six user-declared operators (left/right at three precedence levels) evaluated through the real pipeline with operators that print their grouping, compared with a shunting-yard reference incl. conflict errors; plus built-in arithmetic / boolean chains compared by value. distinct = (AST, style) or chain text"
    }
    fn assumptions(&self) -> Vec<String> {
        vec!["tabs are not used (layout is column based); the printer's discipline is the documented offside rule as implemented by the book's examples".into()]
    }
    fn phases(&self, tier: Tier) -> Vec<Phase> {
        vec![
            Phase::new("roundtrip", tier.pick(60000, 4000000)).min_cases(tier.pick(15000, 600000)).timeouts(60, tier.pick(300, 1500)),
            // chains are numbered exhaustively: 6^1 + .. + 6^(L-1) user chains for L operands
            Phase::new("chains", tier.pick(1554, 55986)).min_cases(tier.pick(1500, 50000)).timeouts(60, tier.pick(300, 1500)).exhaustive(true),
            Phase::new("builtin-chains", tier.pick(3000, 300000)).min_cases(tier.pick(700, 60000)).timeouts(60, tier.pick(300, 1500)),
        ]
    }
    fn worker(&self, ctx: &WorkerCtx) -> Box<dyn Worker> {
        Box::new(W { phase: ctx.phase.clone(), vm: None, used: 0 })
    }
}

struct W {
    phase: String,
    vm: Option<RootedThread>,
    used: u32,
}

const OPS: [(&str, u32, bool); 6] = [("<~", 4, true), ("~>", 4, false), ("<+", 6, true), ("+>", 6, false), ("<*", 8, true), ("*>", 8, false)];

/// shunting-yard reference; Err = conflicting associativity at one precedence level
fn reference_group(operands: &[String], ops: &[usize]) -> Result<String, ()> {
    let mut out: Vec<String> = vec![operands[0].clone()];
    let mut stack: Vec<usize> = Vec::new();
    fn reduce(out: &mut Vec<String>, op: usize) {
        let r = out.pop().unwrap();
        let l = out.pop().unwrap();
        out.push(format!("({}{}{})", l, OPS[op].0, r));
    }
    for (i, &op) in ops.iter().enumerate() {
        while let Some(&top) = stack.last() {
            let (_, pt, lt) = OPS[top];
            let (_, pi, li) = OPS[op];
            if pt > pi {
                stack.pop();
                reduce(&mut out, top);
            } else if pt == pi {
                if lt != li {
                    return Err(());
                }
                if lt {
                    stack.pop();
                    reduce(&mut out, top);
                } else {
                    break;
                }
            } else {
                break;
            }
        }
        stack.push(op);
        out.push(operands[i + 1].clone());
    }
    while let Some(top) = stack.pop() {
        reduce(&mut out, top);
    }
    Ok(out.pop().unwrap())
}

const CHAIN_PREAMBLE: &str = "let string = import! std.string.prim
let j o a b = string.append \"(\" (string.append a (string.append o (string.append b \")\")))
#[infix(left, 4)]
let (<~) a b = j \"<~\" a b
#[infix(right, 4)]
let (~>) a b = j \"~>\" a b
#[infix(left, 6)]
let (<+) a b = j \"<+\" a b
#[infix(right, 6)]
let (+>) a b = j \"+>\" a b
#[infix(left, 8)]
let (<*) a b = j \"<*\" a b
#[infix(right, 8)]
let (*>) a b = j \"*>\" a b
";

fn parse(src: &str) -> Result<crate::lang::fromgluon::Converted, String> {
    let mut symbols = Symbols::new();
    let mut module = SymbolModule::new("c08".into(), &mut symbols);
    match gluon::parser::parse_partial_root_expr(&mut module, &TypeCache::default(), src) {
        Ok(root) => convert(root.expr()),
        Err((_, errs)) => Err(format!("parse error: {}", errs.into_iter().map(|e| e.to_string()).collect::<Vec<_>>().join("; "))),
    }
}

fn col_of(src: &str, pos: usize) -> usize {
    match src[..pos].rfind('\n') {
        Some(i) => pos - i - 1,
        None => pos,
    }
}

impl Worker for W {
    fn gen(&mut self, rng: &mut Rng, idx: u64) -> Option<Value> {
        match self.phase.as_str() {
            "roundtrip" => {
                let mut opts = GenOpts::default_ordered();
                opts.max_depth = 2 + rng.below(5) as u32;
                opts.node_budget = 15 + rng.below(80) as i32;
                opts.fail_pct = 30;
                let g = gen_program(rng, opts);
                let mut body = g.program.body.clone().unwrap();
                if rng.chance(1, 3) {
                    body = mutate_ast(&body, rng).0;
                }
                let style_bits = (idx % 32) as u32;
                Some(json!({"ast": serde_json::to_value(&body).unwrap(), "style_bits": style_bits, "feats": g.feats, "sample": rng.next() % 1000}))
            }
            "chains" => {
                // idx enumerates all chains: length L operators (1..), base-6 digits
                let mut k = idx;
                let mut len = 1u32;
                loop {
                    let n = 6u64.pow(len);
                    if k < n {
                        break;
                    }
                    k -= n;
                    len += 1;
                }
                let ops: Vec<usize> = (0..len).map(|i| ((k / 6u64.pow(i)) % 6) as usize).collect();
                Some(json!({"ops": ops}))
            }
            _ => {
                let n = 2 + rng.below(6);
                let boolean = rng.chance(1, 3);
                let ops: Vec<&str> = (0..n - 1).map(|_| if boolean { *rng.pick(&["&&", "||"]) } else { *rng.pick(&["#Int+", "#Int-", "#Int*"]) }).collect();
                let vals: Vec<i64> = (0..n).map(|_| if boolean { rng.below(2) as i64 } else { rng.range(0, 7) }).collect();
                Some(json!({"ops": ops, "vals": vals, "boolean": boolean}))
            }
        }
    }

    fn run(&mut self, case: &Value) -> CaseResult {
        match self.phase.as_str() {
            "roundtrip" => {
                let body: Expr = serde_json::from_value(case["ast"].clone()).unwrap();
                let style = Style::from_bits(case["style_bits"].as_u64().unwrap() as u32);
                let src = print_expr(&body, style);
                let h = hash_str(&format!("{}{}", src, case["style_bits"]));
                let want = normalise(&body);
                let mut r = CaseResult::ok(h, body.size() >= 4);
                let conv = match parse(&src) {
                    Ok(c) => c,
                    Err(e) => {
                        return CaseResult::violation(h, format!("printed AST does not parse back: {}\n{}", e, src), json!({"kind": "roundtrip-parse-error", "style": case["style_bits"], "error": e.split(':').nth(1).unwrap_or("").trim().chars().take(40).collect::<String>()}));
                    }
                };
                r.stat("parses", 1).stat("nodes_span_checked", conv.spans.len() as u64);
                if conv.expr != want {
                    return CaseResult::violation(h, format!("parse(print(ast)) differs from ast\n--- text\n{}\n--- parsed\n{:?}\n--- expected\n{:?}", src, conv.expr, want), json!({"kind": "roundtrip-ast-differs", "style": case["style_bits"]}));
                }
                // spans
                for (sp, parent) in &conv.spans {
                    let (s, e) = (sp.start().to_usize().saturating_sub(1), sp.end().to_usize().saturating_sub(1));
                    if s > e || e > src.len() || !src.is_char_boundary(s) || !src.is_char_boundary(e) {
                        return CaseResult::violation(h, format!("node span {}..{} outside the input / not on char boundaries (len {})\n{}", s, e, src.len(), src), json!({"kind": "span-out-of-input"}));
                    }
                    if let Some(p) = parent {
                        if s + 1 < p.start().to_usize() || e + 1 > p.end().to_usize() {
                            return CaseResult::violation(h, format!("node span {}..{} not inside its parent's span {}..{}\n{}", s, e, p.start().to_usize(), p.end().to_usize(), src), json!({"kind": "span-not-nested"}));
                        }
                    }
                }
                // a sampled node's text must re-parse to that same subtree
                if !conv.spans.is_empty() {
                    let k = (case["sample"].as_u64().unwrap_or(0) as usize) % conv.spans.len();
                    let (sp, _) = conv.spans[k];
                    let (s, e) = (sp.start().to_usize().saturating_sub(1), sp.end().to_usize().saturating_sub(1));
                    if s < e {
                        let piece = format!("{}{}", " ".repeat(col_of(&src, s)), &src[s..e]);
                        // the k-th node in pre-order of the converted tree
                        fn nth<'a>(e: &'a Expr, k: &mut usize) -> Option<&'a Expr> {
                            if *k == 0 {
                                return Some(e);
                            }
                            *k -= 1;
                            for c in crate::lang::reduce::children(e) {
                                if let Some(x) = nth(c, k) {
                                    return Some(x);
                                }
                            }
                            None
                        }
                        // spans were collected in the converter's visiting order which is not
                        // pre-order for let bodies; compare through the set of subtrees instead
                        match parse(&piece) {
                            Ok(sub) => {
                                let mut found = false;
                                crate::lang::gen::walk(&conv.expr, &mut |x| {
                                    if *x == sub.expr {
                                        found = true;
                                    }
                                });
                                r.stat("span_slices_reparsed", 1);
                                if !found {
                                    return CaseResult::violation(h, format!("the text of span {}..{} re-parses to a tree that is no subtree of the whole parse\n--- slice\n{}\n--- whole\n{}", s, e, piece, src), json!({"kind": "span-slice-differs"}));
                                }
                                let _ = nth(&conv.expr, &mut 0);
                            }
                            Err(err) => {
                                return CaseResult::violation(h, format!("the text of span {}..{} does not parse on its own: {}\n--- slice\n{}\n--- whole\n{}", s, e, err, piece, src), json!({"kind": "span-slice-unparsable"}));
                            }
                        }
                    }
                }
                for f in case["feats"].as_array().cloned().unwrap_or_default() {
                    if let Some(f) = f.as_str() {
                        r.feat(f);
                    }
                }
                r.feat(format!("style-{:05b}", case["style_bits"].as_u64().unwrap()));
                r
            }
            "chains" => {
                let ops: Vec<usize> = case["ops"].as_array().unwrap().iter().map(|x| x.as_u64().unwrap() as usize).collect();
                let operands: Vec<String> = (0..=ops.len()).map(|i| ((b'a' + i as u8) as char).to_string()).collect();
                let mut chain = format!("\"{}\"", operands[0]);
                for (i, op) in ops.iter().enumerate() {
                    chain.push_str(&format!(" {} \"{}\"", OPS[*op].0, operands[i + 1]));
                }
                let src = format!("{}{}\n", CHAIN_PREAMBLE, chain);
                let h = hash_str(&chain);
                if self.vm.is_none() || self.used > 300 {
                    self.vm = Some(vm_with(Settings::PLAIN));
                    self.used = 0;
                }
                self.used += 1;
                let vm = self.vm.clone().unwrap();
                let got = match crate::worker::guarded(|| run_program(&vm, &format!("c08_{:x}", h), &src)) {
                    Ok(g) => g,
                    Err((loc, msg)) => {
                        self.vm = None;
                        return CaseResult::violation(h, format!("panic while compiling chain `{}` at {}: {}", chain, loc, msg), json!({"kind": "host-panic", "location": crate::worker::strip_repo(&loc)}));
                    }
                };
                let want = reference_group(&operands, &ops);
                let mut r = CaseResult::ok(h, ops.len() >= 2);
                r.stat("chains_evaluated", 1);
                match (&want, &got) {
                    (Ok(w), Outcome::Value(v, _)) => {
                        if &format!("{:?}", w) != v {
                            return CaseResult::violation(h, format!("chain `{}` groups as {} but the declared fixities dictate {}", chain, v, w), json!({"kind": "wrong-grouping"}));
                        }
                        r.stat("groupings_compared", 1);
                    }
                    (Err(()), Outcome::Error(c, _)) if c == "parse" || c == "typecheck" || c == "macro" => {
                        r.stat("conflicts_reported", 1);
                    }
                    (Err(()), o) => {
                        return CaseResult::violation(h, format!("chain `{}` mixes left and right associative operators of one precedence but is accepted: {}", chain, o.short()), json!({"kind": "conflict-not-reported"}));
                    }
                    (Ok(w), o) => {
                        self.vm = None;
                        return CaseResult::violation(h, format!("chain `{}` (expected grouping {}) is rejected: {}", chain, w, o.short()), json!({"kind": "valid-chain-rejected"}));
                    }
                }
                r
            }
            _ => {
                let ops: Vec<String> = case["ops"].as_array().unwrap().iter().map(|x| x.as_str().unwrap().to_string()).collect();
                let vals: Vec<i64> = case["vals"].as_array().unwrap().iter().map(|x| x.as_i64().unwrap()).collect();
                let boolean = case["boolean"].as_bool().unwrap_or(false);
                let lit = |v: i64| if boolean { if v == 1 { "True".to_string() } else { "False".to_string() } } else { v.to_string() };
                let mut chain = lit(vals[0]);
                for (i, op) in ops.iter().enumerate() {
                    chain.push_str(&format!(" {} {}", op, lit(vals[i + 1])));
                }
                let src = format!("let {{ Bool }} = import! std.types\n{}\n", chain);
                let h = hash_str(&chain);
                // reference: precedence climbing over the documented built-in table
                fn prec(op: &str) -> (u32, bool) {
                    match op {
                        "#Int*" => (7, true),
                        "#Int+" | "#Int-" => (6, true),
                        "&&" => (3, false),
                        _ => (2, false),
                    }
                }
                fn climb(vals: &[i64], ops: &[String], pos: &mut usize, min: u32) -> i64 {
                    let mut lhs = vals[*pos];
                    while *pos < ops.len() {
                        let op = ops[*pos].clone();
                        let (p, left) = prec(&op);
                        if p < min {
                            break;
                        }
                        *pos += 1;
                        let rhs = climb(vals, ops, pos, if left { p + 1 } else { p });
                        lhs = match op.as_str() {
                            "#Int*" => lhs * rhs,
                            "#Int+" => lhs + rhs,
                            "#Int-" => lhs - rhs,
                            "&&" => (lhs != 0 && rhs != 0) as i64,
                            _ => (lhs != 0 || rhs != 0) as i64,
                        };
                    }
                    lhs
                }
                let want = climb(&vals, &ops, &mut 0, 0);
                if self.vm.is_none() || self.used > 300 {
                    self.vm = Some(vm_with(Settings { optimize: false, ..Settings::PLAIN }));
                    self.used = 0;
                }
                self.used += 1;
                let vm = self.vm.clone().unwrap();
                let got = run_program(&vm, &format!("c08b_{:x}", h), &src);
                let want_s = if boolean { format!("<{}|>", want) } else { want.to_string() };
                let mut r = CaseResult::ok(h, ops.len() >= 2);
                r.stat("builtin_chains_evaluated", 1);
                match got {
                    Outcome::Value(v, _) if v == want_s => r,
                    o => CaseResult::violation(h, format!("built-in chain `{}` evaluates to {} but the built-in precedences give {}", chain, o.short(), want_s), json!({"kind": "wrong-builtin-grouping"})),
                }
            }
        }
    }
}
