//! C13 — heaps are isolated: values crossing threads are complete independent copies.
//! Values from a value generator are moved along every transfer route between the threads of a
//! small thread tree (plus an unrelated VM); the canonical graph shape (sharing and cycles
//! explicit) of the received value must equal the shape of the original, the heap-ownership walk
//! must find no pointer into a heap that is neither the holder's own nor an ancestor, and both
//! must stay true through every order of collecting / dropping the threads involved.
use crate::prop::*;
use crate::rng::{hash_str, Rng};
use crate::vmutil::*;
use gluon::vm::api::{Hole, OpaqueValue};
use gluon::vm::thread::RootedValue;
use gluon::vm::verif;
use gluon::{RootedThread, Thread, ThreadExt};
use serde_json::{json, Value};

pub struct C13;

impl Prop for C13 {
    fn id(&self) -> &'static str {
        "C13"
    }
    fn rule(&self) -> &'static str {
        "values from a value generator (ints, floats, strings, arrays of every representation, records, tuples, variants, user lists, closures, partial applications, lazies, shared substructure, cycles through closures) x transfer routes (host: RootedValue::re_root, passing a value of thread A as an argument to a function of thread B, module global read from another thread; gluon: channel child->parent and parent->child->parent, a captured value in a spawned action, `<-` into the parent's reference from a child, forcing the parent's lazy from a child) x thread pairs over the tree root / child / grandchild / sibling / cousin (child of the sibling) / unrelated VM, half of the values partly owned by the sender's parent x random orders of {collect A, collect B, collect root, drop the source value, drop thread A}; oracles: the canonical graph shape (first-visit numbering, back references) of the received value equals the shape of the original and stays equal after every event; the heap-ownership walk (verif_check_heaps) over the whole thread tree finds no dangling edge and no edge into a heap that is neither the holder's own nor one of its ancestors; ASan phase for use-after-free; non-trivial = the value contains at least one heap object and the route crosses heaps that may not share; distinct = (value, route, pair, order)"
    }
    fn phases(&self, tier: Tier) -> Vec<Phase> {
        let mut v = vec![
            Phase::new("host-routes", tier.pick(20_000, 400_000)).min_cases(tier.pick(8000, 150_000)).timeouts(120, tier.pick(400, 3000)),
            Phase::new("gluon-routes", tier.pick(1500, 7000)).min_cases(tier.pick(500, 2000)).timeouts(120, tier.pick(400, 3000)),
            Phase::new("host-routes-asan", tier.pick(1500, 5000)).build(Build::Asan).min_cases(tier.pick(500, 1500)).timeouts(240, tier.pick(400, 3000)),
        ];
        if tier == Tier::Thorough {
            v.push(Phase::new("gluon-routes-asan", 1200).build(Build::Asan).min_cases(300).timeouts(240, 3000));
        }
        v
    }
    fn worker(&self, ctx: &WorkerCtx) -> Box<dyn Worker> {
        crate::worker::set_cpu_budget(120.0);
        crate::worker::set_idle_hang(10.0);
        Box::new(W { gluon: ctx.phase.starts_with("gluon") })
    }
}

struct W {
    gluon: bool,
}

const PREAMBLE: &str = "let { lazy } = import! std.lazy\nlet sp = import! std.string.prim\ntype L a = | Nil | Cons a (L a)\ntype Opt a = | No | Yes a\ntype Cyc = { v : Int, me : Int -> (Int, Cyc) }\nrec let ev x = if x #Int== 0 then 5 else od (x #Int- 1)\nlet od x = ev x\nin\n";

fn atom(rng: &mut Rng, k: &mut u32) -> String {
    *k += 1;
    match rng.below(10) {
        0 => format!("{}", *k as i64 * 7 - 3),
        1 => format!("{}.25", *k),
        2 => format!("\"str{}\"", *k),
        7 | 8 => format!("(sp.append \"dyn\" \"{}\")", *k),
        9 => "ev".to_string(),
        3 => "'c'".to_string(),
        4 => "()".to_string(),
        5 => format!("{}b", *k % 200),
        _ => "\"\"".to_string(),
    }
}

/// Generates a value expression; `feats` collects what it contains
fn gen_val(rng: &mut Rng, depth: u32, k: &mut u32, feats: &mut Vec<&'static str>) -> String {
    if depth == 0 {
        return atom(rng, k);
    }
    *k += 1;
    let n = *k;
    let sub = |rng: &mut Rng, k: &mut u32, feats: &mut Vec<&'static str>| gen_val(rng, depth - 1, k, feats);
    match rng.below(17) {
        0 => {
            feats.push("array-int");
            format!("[{}, {}, {}]", n, n + 1, n + 2)
        }
        1 => {
            feats.push("array-float");
            format!("[{}.5, 0.25]", n)
        }
        2 => {
            feats.push("array-string");
            format!("[\"a{}\", sp.append \"b\" \"{}\", \"\"]", n, n)
        }
        3 => {
            feats.push("array-byte");
            format!("[{}b, 2b]", n % 200)
        }
        4 => {
            feats.push("array-array");
            format!("[[{}], [], [1, 2]]", n)
        }
        5 => {
            feats.push("array-record");
            let e = sub(rng, k, feats);
            format!("(let e{} = {} in [{{ x = e{}, y = {} }}, {{ x = e{}, y = 0 }}])", n, e, n, n, n)
        }
        6 => {
            feats.push("record");
            format!("{{ a = {}, b = {}, c = {} }}", sub(rng, k, feats), sub(rng, k, feats), n)
        }
        7 => {
            feats.push("tuple");
            format!("({}, {})", sub(rng, k, feats), sub(rng, k, feats))
        }
        8 => {
            feats.push("variant");
            format!("(Yes {})", paren(sub(rng, k, feats)))
        }
        9 => {
            feats.push("list");
            format!("(Cons {} (Cons {} Nil))", n, n + 1)
        }
        10 => {
            feats.push("closure");
            format!("(let k{} = {} in \\y -> (y #Int+ 1, k{}))", n, sub(rng, k, feats), n)
        }
        11 => {
            feats.push("partial-application");
            format!("(let f{} a b = (a, b #Int+ 1) in f{} {})", n, n, paren(sub(rng, k, feats)))
        }
        12 => {
            feats.push("shared");
            format!("(let s{} = {} in {{ p = s{}, q = s{}, r = [s{}, s{}] }})", n, sub(rng, k, feats), n, n, n, n)
        }
        13 => {
            feats.push("lazy");
            format!("(lazy (\\_ -> {}))", sub(rng, k, feats))
        }
        14 => {
            feats.push("closure-sharing-upvars");
            format!("(let s{} = [{}, 0] in \\y -> (y #Int+ 1, s{}, [s{}]))", n, n, n, n)
        }
        15 => {
            feats.push("array-of-shared-arrays");
            format!("(let s{} = [{}, 1] in [s{}, s{}, []])", n, n, n, n)
        }
        _ => {
            feats.push("string-shared");
            format!("(let s{} = sp.append \"shared\" \"{}\" in (s{}, [s{}, s{}], {{ t = s{} }}))", n, n, n, n, n, n)
        }
    }
}

fn paren(s: String) -> String {
    if s.starts_with('(') || s.starts_with('[') || s.starts_with('{') || s.starts_with('"') || s.starts_with('\'') || s.chars().all(|c| c.is_ascii_alphanumeric() || c == '.') {
        s
    } else {
        format!("({})", s)
    }
}

const THREADS: &[&str] = &["root", "child", "grandchild", "sibling", "cousin", "unrelated"];
const HOST_ROUTES: &[&str] = &["re_root", "call-identity", "call-capture", "global"];
const GLUON_ROUTES: &[&str] = &["channel-up", "channel-roundtrip", "spawn-capture", "ref-store", "lazy-force"];
const EVENTS: &[&str] = &["collect-a", "collect-b", "collect-root", "drop-source", "drop-thread-a", "collect-b"];

struct Tree {
    root: RootedThread,
    child: Option<RootedThread>,
    grandchild: Option<RootedThread>,
    sibling: Option<RootedThread>,
    /// child of `sibling`: a cousin of `grandchild`
    cousin: Option<RootedThread>,
    unrelated: RootedThread,
}

impl Tree {
    fn new() -> Tree {
        let root = vm_with(Settings::PLAIN);
        let child = root.new_thread().expect("new_thread");
        let grandchild = child.new_thread().expect("new_thread");
        let sibling = root.new_thread().expect("new_thread");
        let cousin = sibling.new_thread().expect("new_thread");
        let unrelated = vm_with(Settings::PLAIN);
        Tree { root, child: Some(child), grandchild: Some(grandchild), sibling: Some(sibling), cousin: Some(cousin), unrelated }
    }
    fn get(&self, name: &str) -> Option<RootedThread> {
        match name {
            "root" => Some(self.root.clone()),
            "child" => self.child.clone(),
            "grandchild" => self.grandchild.clone(),
            "sibling" => self.sibling.clone(),
            "cousin" => self.cousin.clone(),
            "unrelated" => Some(self.unrelated.clone()),
            _ => None,
        }
    }
    fn drop_thread(&mut self, name: &str) {
        match name {
            "child" => {
                // dropping the child handle while its own child is alive keeps it reachable
                // through the grandchild's parent pointer: drop both handles
                self.grandchild = None;
                self.child = None;
            }
            "grandchild" => self.grandchild = None,
            "cousin" => self.cousin = None,
            "sibling" => {
                self.cousin = None;
                self.sibling = None;
            }
            _ => {}
        }
    }
}

fn short(t: &str) -> String {
    let t = t.rsplit("::").next().unwrap_or(t);
    t.trim_end_matches('>').to_string()
}

/// heap walk over a VM; Err = (message, signature)
fn heap_oracle(vm: &Thread, when: &str, res: &mut CaseResult) -> Result<(), (String, Value)> {
    let rep = vm.verif_check_heaps();
    res.stat("heap_walks", 1).stat("objects_walked", rep.live_objects as u64).stat("edges_checked", rep.edges as u64).stat("heaps_walked", rep.heaps as u64);
    // the cross-VM closure shape (listed finding F9) is reported only if nothing else is wrong
    let mut bad: Vec<&verif::Edge> = rep.bad.iter().collect();
    bad.sort_by_key(|e| (e.to_heap.is_none() && short(e.type_name) == "BytecodeFunction") as u8);
    for e in bad {
        let holder_depth = rep.heap_depth.get(&e.holder_heap).cloned();
        match e.to_heap {
            None => {
                return Err((
                    format!("{}: dangling edge from {} (heap depth {:?}) to a {} that is in no live heap", when, if e.from.is_some() { short(e.from_type) } else { "a root".into() }, holder_depth, short(e.type_name)),
                    json!({"kind": "dangling-edge", "holder": if e.from.is_some() { short(e.from_type) } else { "root".into() }, "target_type": short(e.type_name)}),
                ));
            }
            Some(th) => {
                let target_depth = rep.heap_depth.get(&th).cloned();
                // relation of the target heap to the holder heap
                let mut is_descendant = false;
                let mut cur = th;
                while let Some(p) = rep.heap_parent.get(&cur) {
                    if *p == e.holder_heap {
                        is_descendant = true;
                        break;
                    }
                    cur = *p;
                }
                let relation = if is_descendant { "descendant" } else { "other-branch" };
                return Err((
                    format!(
                        "{}: {} in the heap at depth {:?} points to a {} owned by the heap at depth {:?} ({}), which is neither the holder's heap nor one of its ancestors",
                        when,
                        if e.from.is_some() { short(e.from_type) } else { "a root".into() },
                        holder_depth,
                        short(e.type_name),
                        target_depth,
                        relation
                    ),
                    json!({"kind": "ownership-edge", "holder": if e.from.is_some() { short(e.from_type) } else { "root".into() }, "target_type": short(e.type_name),
                           "holder_depth": holder_depth, "target_depth": target_depth, "relation": relation}),
                ));
            }
        }
    }
    Ok(())
}

type Opaque = OpaqueValue<RootedThread, Hole>;

fn eval_on(vm: &Thread, name: &str, src: &str) -> Result<RootedValue<RootedThread>, String> {
    match vm.run_expr::<Opaque>(name, src) {
        Ok((v, _)) => Ok(v.into_inner()),
        Err(e) => Err(e.to_string().lines().next().unwrap_or("").to_string()),
    }
}

fn shape_of(v: &RootedValue<RootedThread>) -> String {
    verif::value_shape(v.get_variant())
}

impl Worker for W {
    fn gen(&mut self, rng: &mut Rng, _idx: u64) -> Option<Value> {
        let mut feats = Vec::new();
        let mut k = 0;
        let depth = 1 + rng.below(3) as u32;
        let mut val = gen_val(rng, depth, &mut k, &mut feats);
        if !self.gluon && rng.chance(1, 7) {
            // a cyclic value (record -> closure -> record); only as the whole value: nested
            // recursive value bindings run into the listed compiler defects F18 and into the
            // recursion check's over-approximation, which are not this property's business
            feats.clear();
            feats.push("cycle-through-closure");
            val = format!("(rec let r{} : Cyc = {{ v = {}, me = \\u -> (u #Int+ 1, r{}) }} in r{})", k, k, k, k);
        }
        if self.gluon {
            let route = *rng.pick(GLUON_ROUTES);
            let collect_between = rng.chance(1, 2);
            Some(json!({"value": val, "route": route, "feats": feats, "collect_between": collect_between, "key": {"route": route}}))
        } else {
            let route = *rng.pick(HOST_ROUTES);
            let a = *rng.pick(THREADS);
            let mut b = *rng.pick(THREADS);
            if a == b {
                b = THREADS[(THREADS.iter().position(|x| *x == a).unwrap() + 1 + rng.below(5)) % 6];
            }
            let mut events: Vec<&str> = EVENTS.to_vec();
            rng.shuffle(&mut events);
            events.truncate(2 + rng.below(5));
            Some(json!({"value": val, "route": route, "a": a, "b": b, "events": events, "feats": feats, "mixed_ancestry": rng.chance(1, 2), "key": {"route": route}}))
        }
    }

    fn run(&mut self, case: &Value) -> CaseResult {
        if self.gluon {
            return run_gluon(case);
        }
        let val = case["value"].as_str().unwrap_or("0");
        let route = case["route"].as_str().unwrap_or("");
        let (a, b) = (case["a"].as_str().unwrap_or("root"), case["b"].as_str().unwrap_or("child"));
        let events: Vec<String> = case["events"].as_array().map(|x| x.iter().filter_map(|e| e.as_str().map(String::from)).collect()).unwrap_or_default();
        let hash = hash_str(&case.to_string());
        let src = format!("{}{}\n", PREAMBLE, val);
        let mut tree = Tree::new();
        let (ta, tb) = (tree.get(a).unwrap(), tree.get(b).unwrap());
        let mut res = CaseResult::ok(hash, false);
        let sig = |kind: &str| json!({"kind": kind, "route": route, "pair": format!("{}->{}", a, b)});
        // the unrelated VM cannot import a module of the tree's VM
        if route == "global" && (a == "unrelated" || b == "unrelated") {
            return CaseResult::skip("global route within one VM only");
        }
        // ---- original on A; half of the time part of it is owned by A's parent: the inner value
        // is built on the parent and handed down (a descendant may point into an ancestor's heap)
        let parent_name = match a {
            "child" | "sibling" => Some("root"),
            "grandchild" => Some("child"),
            "cousin" => Some("sibling"),
            _ => None,
        };
        let mixed = case["mixed_ancestry"] == true && parent_name.is_some() && route != "global";
        let original = if mixed {
            let tp = tree.get(parent_name.unwrap()).unwrap();
            let inner = match eval_on(&tp, "c13_inner", &src) {
                Ok(v) => v,
                Err(e) => return CaseResult::inconclusive(hash, format!("value program rejected: {}", e)),
            };
            let wrap = match ta.run_expr::<Opaque>("c13_wrap_down", "\\x -> { inner = x, fresh = [7, 8], again = x }") {
                Ok((f, _)) => f,
                Err(e) => return CaseResult::inconclusive(hash, format!("wrapper rejected: {}", e)),
            };
            let mut func: gluon::vm::api::Function<RootedThread, fn(Opaque) -> Opaque> = gluon::vm::api::Getable::from_value(&ta, wrap.get_variant());
            match func.call(OpaqueValue::from_value(inner)) {
                Ok(v) => {
                    res.stat("values_with_parts_owned_by_the_parent", 1);
                    v.into_inner()
                }
                Err(e) => return CaseResult::inconclusive(hash, format!("handing the inner value down failed: {}", e)),
            }
        } else {
            match eval_on(&ta, "c13_value", &src) {
                Ok(v) => v,
                Err(e) => return CaseResult::inconclusive(hash, format!("value program rejected: {}", e)),
            }
        };
        let expect = shape_of(&original);
        let has_heap_object = expect.contains('=');
        // ---- transfer
        let mut expect_moved = expect.clone();
        let moved: RootedValue<RootedThread> = match route {
            "re_root" => match original.re_root(tb.clone()) {
                Ok(v) => v,
                Err(e) => {
                    // a refusal is an answer (userdata that cannot be cloned); nothing moved
                    let mut r = CaseResult::ok(hash, false);
                    r.stat("transfers_refused_with_error", 1);
                    r.feat(format!("refused:{}", e.to_string().chars().take(40).collect::<String>()));
                    return r;
                }
            },
            "call-identity" | "call-capture" => {
                let fsrc = if route == "call-identity" { "\\x -> x" } else { "\\x -> { got = x, n = 7, again = x }" };
                // what the function gives without any transfer (computed on A itself)
                if route == "call-capture" {
                    // what the function gives without any transfer: called on A itself
                    let fa = match ta.run_expr::<Opaque>("c13_fn_local", fsrc) {
                        Ok((f, _)) => f,
                        Err(e) => return CaseResult::inconclusive(hash, format!("function rejected: {}", e)),
                    };
                    let mut func: gluon::vm::api::Function<RootedThread, fn(Opaque) -> Opaque> = gluon::vm::api::Getable::from_value(&ta, fa.get_variant());
                    match func.call(OpaqueValue::from_value(original.clone())) {
                        Ok(v) => expect_moved = shape_of(&v.into_inner()),
                        Err(e) => return CaseResult::inconclusive(hash, format!("local call failed: {}", e)),
                    }
                }
                let f = match tb.run_expr::<Opaque>("c13_fn", fsrc) {
                    Ok((f, _)) => f,
                    Err(e) => return CaseResult::inconclusive(hash, format!("function rejected: {}", e)),
                };
                let mut func: gluon::vm::api::Function<RootedThread, fn(Opaque) -> Opaque> = gluon::vm::api::Getable::from_value(&tb, f.get_variant());
                let arg: Opaque = OpaqueValue::from_value(original.clone());
                match func.call(arg) {
                    Ok(v) => v.into_inner(),
                    Err(e) => {
                        let mut r = CaseResult::ok(hash, false);
                        r.stat("transfers_refused_with_error", 1);
                        r.feat(format!("refused:{}", e.to_string().chars().take(40).collect::<String>()));
                        return r;
                    }
                }
            }
            "global" => {
                if let Err(e) = ta.load_script("c13_mod", &src) {
                    return CaseResult::inconclusive(hash, format!("module rejected: {}", e));
                }
                // the module's own evaluation is the original here
                match eval_on(&tb, "c13_use", "let m = import! c13_mod\nm\n") {
                    Ok(v) => v,
                    Err(e) => return CaseResult::violation(hash, format!("module loaded on {} cannot be read from {}: {}", a, b, e), sig("global-unreadable")),
                }
            }
            _ => return CaseResult::inconclusive(hash, "unknown route"),
        };
        let got = shape_of(&moved);
        if route == "global" {
            // compare with what A itself sees through the same import
            match eval_on(&ta, "c13_use_a", "let m = import! c13_mod\nm\n") {
                Ok(v) => expect_moved = shape_of(&v),
                Err(e) => return CaseResult::inconclusive(hash, format!("module unreadable on its own thread: {}", e)),
            }
        }
        if got != expect_moved {
            return CaseResult::violation(hash, format!("{} {}->{}: received value has shape `{}`, the original has `{}`", route, a, b, clip(&got), clip(&expect_moved)), sig("shape-differs"));
        }
        res.stat("transfers", 1).stat("shape_bytes_compared", got.len() as u64);
        let crosses = !(a == b);
        res.nontrivial = has_heap_object && crosses;
        if let Err((m, s)) = heap_oracle(&tree.root, "after transfer", &mut res) {
            return CaseResult::violation(hash, format!("{} {}->{}: {}", route, a, b, m), merge(s, route, a, b));
        }
        if let Err((m, s)) = heap_oracle(&tree.unrelated, "after transfer (unrelated VM)", &mut res) {
            return CaseResult::violation(hash, format!("{} {}->{}: {}", route, a, b, m), merge(s, route, a, b));
        }
        // ---- events
        let mut original = Some(original);
        let mut ta = Some(ta);
        let mut tb = Some(tb);
        for ev in &events {
            match ev.as_str() {
                "collect-a" => {
                    if let Some(t) = &ta {
                        t.collect();
                    }
                }
                "collect-b" => {
                    if let Some(t) = &tb {
                        t.collect();
                    }
                }
                "collect-root" => {
                    tree.root.collect();
                    tree.unrelated.collect();
                }
                "drop-source" => {
                    original = None;
                }
                "drop-thread-a" => {
                    // only when A is not B's ancestor (B must stay alive) and not a root
                    let ancestor = matches!((a, b), ("child", "grandchild") | ("sibling", "cousin") | ("root", _));
                    if !ancestor && a != "root" && a != "unrelated" {
                        original = None;
                        ta = None;
                        tree.drop_thread(a);
                        res.stat("source_threads_dropped", 1);
                    }
                }
                _ => {}
            }
            res.stat("events", 1);
            let _ = &tb;
            if let Err((m, s)) = heap_oracle(&tree.root, &format!("after {}", ev), &mut res) {
                return CaseResult::violation(hash, format!("{} {}->{} events {:?}: {}", route, a, b, events, m), merge(s, route, a, b));
            }
            if let Err((m, s)) = heap_oracle(&tree.unrelated, &format!("after {} (unrelated VM)", ev), &mut res) {
                return CaseResult::violation(hash, format!("{} {}->{} events {:?}: {}", route, a, b, events, m), merge(s, route, a, b));
            }
            let again = shape_of(&moved);
            if again != expect_moved {
                return CaseResult::violation(hash, format!("{} {}->{}: after {} the received value reads `{}`, it was `{}`", route, a, b, ev, clip(&again), clip(&expect_moved)), sig("received-value-changed"));
            }
        }
        drop(original);
        drop(moved);
        drop(ta);
        drop(tb);
        for f in case["feats"].as_array().cloned().unwrap_or_default() {
            if let Some(f) = f.as_str() {
                res.feat(f);
            }
        }
        res.feat(format!("route:{}", route));
        res.feat(format!("pair:{}->{}", a, b));
        res
    }
}

fn merge(mut s: Value, route: &str, a: &str, b: &str) -> Value {
    s["route"] = json!(route);
    s["cross_vm"] = json!(a == "unrelated" || b == "unrelated");
    s["pair"] = json!(format!("{}->{}", a, b));
    s
}

fn clip(s: &str) -> String {
    if s.len() > 300 {
        format!("{}...", &s[..s.char_indices().take_while(|(i, _)| *i < 300).last().map(|(i, c)| i + c.len_utf8()).unwrap_or(0)])
    } else {
        s.to_string()
    }
}

fn gluon_program(route: &str, val: &str, collect_between: bool) -> String {
    let mut s = String::new();
    s.push_str("let { wrap } = import! std.applicative\nlet io @ { ? } = import! std.io\nlet { Result } = import! std.types\nlet { send, recv, channel } = import! std.channel\nlet { spawn, yield, resume } = import! std.thread\nlet { ref, load, (<-) } = import! std.reference\nlet { lazy, force } = import! std.lazy\nlet array = import! std.array\nlet sp = import! std.string.prim\ntype L a = | Nil | Cons a (L a)\ntype Opt a = | No | Yes a\ntype Cyc = { v : Int, me : Int -> (Int, Cyc) }\nrec let ev x = if x #Int== 0 then 5 else od (x #Int- 1)\nlet od x = ev x\nin\n");
    s.push_str(&format!("let mk _ = {}\n", val));
    // allocation churn to make collections of the child / parent likely between the steps
    s.push_str("rec let churn n acc = if n == 0 then acc else churn (n - 1) (array.len [n, n, n] + acc - 3)\nin\n");
    let churn = if collect_between { "let _ = churn 400 0\n" } else { "" };
    let churn8 = if collect_between { "        let _ = churn 400 0\n" } else { "" };
    match route {
        "channel-up" => {
            s.push_str("do { sender, receiver } = channel (mk ())\n");
            s.push_str("do t = spawn (\n        do _ = wrap ()\n");
            s.push_str(churn8);
            s.push_str("        do _ = send sender (mk ())\n        wrap ()\n    )\ndo _ = resume t\n");
            s.push_str(churn);
            s.push_str("do r = recv receiver\nmatch r with\n| Ok v -> wrap v\n| Err _ -> error \"empty\"\n");
        }
        "channel-roundtrip" => {
            s.push_str("do { sender = s1, receiver = r1 } = channel (mk ())\ndo { sender = s2, receiver = r2 } = channel (mk ())\n");
            s.push_str("do _ = send s1 (mk ())\n");
            s.push_str("do t = spawn (\n        do x = recv r1\n");
            s.push_str(churn8);
            s.push_str("        match x with\n        | Ok v ->\n            do _ = send s2 v\n            wrap ()\n        | Err _ -> wrap ()\n    )\ndo _ = resume t\n");
            s.push_str(churn);
            s.push_str("do r = recv r2\nmatch r with\n| Ok v -> wrap v\n| Err _ -> error \"empty\"\n");
        }
        "spawn-capture" => {
            s.push_str("let v = mk ()\ndo { sender, receiver } = channel v\n");
            s.push_str("do t = spawn (\n        do _ = wrap ()\n");
            s.push_str(churn8);
            s.push_str("        do _ = send sender v\n        wrap ()\n    )\ndo _ = resume t\n");
            s.push_str(churn);
            s.push_str("do r = recv receiver\nmatch r with\n| Ok v -> wrap v\n| Err _ -> error \"empty\"\n");
        }
        "ref-store" => {
            s.push_str("do cell = ref (mk ())\n");
            s.push_str("do t = spawn (\n        do _ = wrap ()\n");
            s.push_str(churn8);
            s.push_str("        seq cell <- mk ()\n        wrap ()\n    )\ndo _ = resume t\n");
            s.push_str(churn);
            s.push_str("load cell\n");
        }
        _ => {
            // lazy-force
            s.push_str("let l = lazy (\\_ -> mk ())\n");
            s.push_str("do t = spawn (\n        do _ = wrap ()\n");
            s.push_str(churn8);
            s.push_str("        let x = force l\n        wrap ()\n    )\ndo _ = resume t\n");
            s.push_str(churn);
            s.push_str("wrap (force l)\n");
        }
    }
    s
}

fn io_vm() -> RootedThread {
    let mut s = Settings::PLAIN;
    s.prelude = true;
    s.run_io = true;
    vm_with(s)
}

fn run_gluon(case: &Value) -> CaseResult {
    let val = case["value"].as_str().unwrap_or("0");
    let route = case["route"].as_str().unwrap_or("");
    let collect_between = case["collect_between"].as_bool().unwrap_or(false);
    let hash = hash_str(&case.to_string());
    let mut res = CaseResult::ok(hash, false);
    // expected: the value built without any transfer
    let vm0 = io_vm();
    let direct_src = format!("let {{ lazy, force }} = import! std.lazy\nlet sp = import! std.string.prim\ntype L a = | Nil | Cons a (L a)\ntype Opt a = | No | Yes a\ntype Cyc = {{ v : Int, me : Int -> (Int, Cyc) }}\nrec let ev x = if x #Int== 0 then 5 else od (x #Int- 1)\nlet od x = ev x\nin\nlet mk _ = {}\nmk ()\n", val);
    let direct = match eval_on(&vm0, "c13_direct", &direct_src) {
        Ok(v) => v,
        Err(e) => return CaseResult::inconclusive(hash, format!("value program rejected: {}", e)),
    };
    let expect = shape_of(&direct);
    let src = gluon_program(route, val, collect_between);
    for stress in [0usize, 7, 1] {
        let vm = io_vm();
        verif::reset_counters();
        verif::set_gc_stress(stress);
        let out = eval_on(&vm, "c13_route", &src);
        verif::set_gc_stress(0);
        let got = match out {
            Ok(v) => v,
            Err(e) => {
                if e.contains("rror") && (e.contains("typecheck") || e.contains("Expected") || e.contains("parse")) && stress == 0 {
                    return CaseResult::inconclusive(hash, format!("route program rejected: {}", e));
                }
                return CaseResult::violation(hash, format!("{} (gc stress {}): the program failed: {}", route, stress, e), json!({"kind": "route-program-failed", "route": route}));
            }
        };
        let shape = shape_of(&got);
        // names of functions inside closures carry the module name: normalise
        if normalise(&shape) != normalise(&expect) {
            return CaseResult::violation(
                hash,
                format!("{} (gc stress {}): received value has shape `{}`, built directly it has `{}`", route, stress, clip(&shape), clip(&expect)),
                json!({"kind": "shape-differs", "route": route}),
            );
        }
        res.stat("transfers", 1).stat("shape_bytes_compared", shape.len() as u64);
        if let Err((m, s)) = heap_oracle(&vm, "after the route program", &mut res) {
            return CaseResult::violation(hash, format!("{} (gc stress {}): {}", route, stress, m), merge(s, route, "gluon", "gluon"));
        }
        vm.collect();
        if let Err((m, s)) = heap_oracle(&vm, "after collecting the root thread", &mut res) {
            return CaseResult::violation(hash, format!("{} (gc stress {}): {}", route, stress, m), merge(s, route, "gluon", "gluon"));
        }
        let again = shape_of(&got);
        if again != shape {
            return CaseResult::violation(hash, format!("{}: after collecting, the received value reads `{}`, it was `{}`", route, clip(&again), clip(&shape)), json!({"kind": "received-value-changed", "route": route}));
        }
        res.stat("forced_collections", verif::FORCED_COLLECTIONS.load(std::sync::atomic::Ordering::SeqCst) as u64);
    }
    res.nontrivial = expect.contains('=');
    for f in case["feats"].as_array().cloned().unwrap_or_default() {
        if let Some(f) = f.as_str() {
            res.feat(f);
        }
    }
    res.feat(format!("route:{}", route));
    res
}

fn normalise(s: &str) -> String {
    s.to_string()
}

pub fn dbg_main(args: &[String]) {
    let val = args.get(0).cloned().unwrap_or("1".into());
    let tree = Tree::new();
    let a = tree.get(args.get(1).map(|s| s.as_str()).unwrap_or("child")).unwrap();
    let b = tree.get(args.get(2).map(|s| s.as_str()).unwrap_or("root")).unwrap();
    let src = format!("{}{}\n", PREAMBLE, val);
    let v = eval_on(&a, "c13_value", &src).unwrap();
    println!("orig  {}", shape_of(&v));
    let m = v.re_root(b.clone()).unwrap();
    println!("moved {}", shape_of(&m));
    let mut r = CaseResult::ok(0, false);
    println!("{:?}", heap_oracle(&tree.root, "dbg", &mut r));
}
