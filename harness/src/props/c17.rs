//! C17 — channels, references and lazy values keep their sequential contracts: operation
//! sequences (main script + up to 3 green-thread scripts) are turned into a gluon program whose
//! every observation is appended to a shared log; an executable model predicts the log.
use crate::prop::*;
use crate::rng::{hash_str, Rng};
use crate::vmutil::*;
use serde_derive::{Deserialize, Serialize};
use serde_json::{json, Value};
use std::collections::VecDeque;
use std::fmt::Write;

pub struct C17;

pub const EMPTY: i64 = 99_999;
pub const DEAD: i64 = 99_998;
pub const FAILED: i64 = 99_997;
const TAG: i64 = 1_000_000;
/// lazies 0..FAILING are normal, 2 fails, 3 fails after a nested normal force, 4 depends on itself,
/// 5 (forced by children only) suspends its evaluating thread in the middle of the computation
const NLAZY: u8 = 6;
const YIELDING: u8 = 5;
const FAILING: u8 = 2;

#[derive(Clone, Debug, Serialize, Deserialize, PartialEq)]
pub enum Op {
    Send(u8, i64),
    Recv(u8),
    Store(u8, i64),
    Load(u8),
    Force(u8),
    Yield,
    Spawn(u8),
    Resume(u8),
}

#[derive(Clone, Debug, Serialize, Deserialize)]
pub struct Hist {
    pub main: Vec<Op>,
    pub children: Vec<Vec<Op>>,
}

impl Prop for C17 {
    fn id(&self) -> &'static str {
        "C17"
    }
    fn rule(&self) -> &'static str {
        "operation histories over {send v, recv, store, load, force (normal / failing lazies), spawn, resume, yield} on 2 channels (Int and Array Int payloads, every payload unique), 2 references, 6 lazies (2 normal, 2 failing, 1 whose computation forces itself, 1 whose computation yields twice so that its evaluating thread is suspended in the middle while other threads force it and wait) and up to 3 green threads; each history is compiled to a gluon IO program in which every operation appends what it observed (tagged with the operation's position) to a shared log, and the effect log of verif.fx records every run of a lazy's computation; an executable sequential model (FIFO queues, cells, thunk-once lazies, coroutine program counters) predicts the log exactly; `exhaustive`: every valid main sequence up to the tier's length over a 10-letter alphabet with two fixed child scripts; `lazy-waiters`: every order of up to 7 (quick) / 8 (thorough) resumes of three threads that all force the lazy whose evaluation suspends its thread; `random`: longer histories with random child scripts including nested resumes; a history that blocks forever (no CPU consumed for 8 s) is a violation; non-trivial = the history has at least one cross-thread interaction (a value sent, stored or forced by one thread and observed by another) or a failing force; distinct = history"
    }
    fn assumptions(&self) -> Vec<String> {
        vec![
            "a lazy whose computation depends on itself cannot be written in plain gluon source (the recursion check rejects every spelling tried); the harness's extern module provides a one-slot stash (as an embedder's callback registry would) through which the computation reaches its own lazy".into(),
            "green threads are coroutines resumed on the caller's OS thread: the interleaving is fully determined by the history, which is what makes an exact sequential model the right oracle".into(),
        ]
    }
    fn phases(&self, tier: Tier) -> Vec<Phase> {
        let l = tier.pick(5, 6);
        vec![
            Phase::new("exhaustive", exhaustive_count(l)).exhaustive(true).min_cases(tier.pick(10_000, 100_000)).timeouts(60, tier.pick(400, 3000)),
            Phase::new("lazy-waiters", waiters_count(tier.pick(7, 8))).exhaustive(true).min_cases(tier.pick(3000, 9000)).timeouts(60, tier.pick(400, 3000)),
            Phase::new("random", tier.pick(6000, 100_000)).min_cases(tier.pick(1000, 40_000)).timeouts(60, tier.pick(400, 3000)),
        ]
    }
    fn worker(&self, ctx: &WorkerCtx) -> Box<dyn Worker> {
        crate::worker::set_idle_hang(8.0);
        Box::new(W { exhaustive: ctx.phase == "exhaustive", waiters: ctx.phase == "lazy-waiters", len: ctx.tier.pick(5, 6), vm: None, uses: 0 })
    }
}

/// every order of up to `maxlen` resumes of three threads that all force the yielding lazy
fn waiters_count(maxlen: u32) -> u64 {
    (1..=maxlen).map(|l| 3u64.pow(l)).sum()
}

fn waiters_case(mut idx: u64, maxlen: u32) -> Option<Hist> {
    let mut len = 1;
    loop {
        let n = 3u64.pow(len);
        if idx < n {
            break;
        }
        idx -= n;
        len += 1;
        if len > maxlen {
            return None;
        }
    }
    let mut main = vec![Op::Spawn(0), Op::Spawn(1), Op::Spawn(2)];
    for _ in 0..len {
        main.push(Op::Resume((idx % 3) as u8));
        idx /= 3;
    }
    main.push(Op::Load(0));
    let children = vec![
        vec![Op::Force(YIELDING), Op::Store(0, 7), Op::Force(0)],
        vec![Op::Force(YIELDING), Op::Force(YIELDING)],
        vec![Op::Load(0), Op::Force(YIELDING), Op::Send(0, 9)],
    ];
    Some(Hist { main, children })
}

const ALPHA: usize = 10;

fn exhaustive_count(maxlen: u32) -> u64 {
    (1..=maxlen).map(|l| (ALPHA as u64).pow(l)).sum()
}

fn fixed_children() -> Vec<Vec<Op>> {
    vec![
        vec![Op::Recv(0), Op::Yield, Op::Force(0), Op::Store(0, 7), Op::Yield, Op::Force(2), Op::Send(0, 99)],
        vec![Op::Force(2), Op::Yield, Op::Load(0), Op::Send(0, 98), Op::Yield, Op::Recv(0), Op::Force(4)],
    ]
}

/// idx -> main sequence (lengths 1..=maxlen in order), None when the sequence is not valid
fn exhaustive_case(mut idx: u64, maxlen: u32) -> Option<Hist> {
    let mut len = 1;
    loop {
        let n = (ALPHA as u64).pow(len);
        if idx < n {
            break;
        }
        idx -= n;
        len += 1;
        if len > maxlen {
            return None;
        }
    }
    let mut main = Vec::new();
    let mut spawned = 0u8;
    for pos in 0..len {
        let d = idx % ALPHA as u64;
        idx /= ALPHA as u64;
        let v = 10 + pos as i64;
        main.push(match d {
            0 => Op::Send(0, v),
            1 => Op::Recv(0),
            2 => Op::Store(0, v),
            3 => Op::Load(0),
            4 => Op::Force(0),
            5 => Op::Force(2),
            6 => Op::Force(4),
            7 => {
                if spawned >= 2 {
                    return None;
                }
                spawned += 1;
                Op::Spawn(spawned - 1)
            }
            k => {
                let t = (k - 8) as u8;
                if t >= spawned {
                    return None;
                }
                Op::Resume(t)
            }
        });
    }
    Some(Hist { main, children: fixed_children() })
}

fn random_case(rng: &mut Rng) -> Hist {
    let nthreads = rng.below(4) as u8;
    let mut next_val = 10i64;
    let mut val = || {
        next_val += 1;
        next_val
    };
    let mut children: Vec<Vec<Op>> = Vec::new();
    let mut main = Vec::new();
    let mut spawned = 0u8;
    let n = 4 + rng.below(24);
    let basic = |rng: &mut Rng, val: &mut dyn FnMut() -> i64| match rng.below(10) {
        0 | 1 => Op::Send(rng.below(2) as u8, val()),
        2 | 3 => Op::Recv(rng.below(2) as u8),
        4 => Op::Store(rng.below(2) as u8, val()),
        5 | 6 => Op::Load(rng.below(2) as u8),
        _ => Op::Force(rng.below(YIELDING as usize) as u8),
    };
    for _ in 0..n {
        let r = rng.below(10);
        if r < 2 && spawned < nthreads {
            // child script; may resume threads spawned earlier
            let k = spawned;
            let m = 1 + rng.below(9);
            let mut script = Vec::new();
            for _ in 0..m {
                let q = rng.below(10);
                if q < 2 {
                    script.push(Op::Yield);
                } else if q == 2 && k > 0 {
                    script.push(Op::Resume(rng.below(k as usize) as u8));
                } else if q == 3 {
                    script.push(Op::Force(YIELDING));
                } else {
                    script.push(basic(rng, &mut val));
                }
            }
            children.push(script);
            main.push(Op::Spawn(k));
            spawned += 1;
        } else if r < 5 && spawned > 0 {
            main.push(Op::Resume(rng.below(spawned as usize) as u8));
        } else {
            main.push(basic(rng, &mut val));
        }
    }
    Hist { main, children }
}

// ---------------------------------------------------------------------------------------------
// model

#[derive(Clone, Copy, PartialEq, Debug)]
enum St {
    NotSpawned,
    Suspended,
    Running,
    Dead,
}

pub struct Model<'a> {
    h: &'a Hist,
    ch: Vec<VecDeque<i64>>,
    refs: Vec<i64>,
    forced: Vec<bool>,
    /// which thread last wrote each thing (0 = main, k+1 = child k); usize::MAX = nobody
    ch_writer: Vec<VecDeque<usize>>,
    ref_writer: Vec<usize>,
    lazy_forcer: Vec<usize>,
    st: Vec<St>,
    pc: Vec<usize>,
    pub notes: Vec<i64>,
    /// runs of normal lazies' computations, in order
    pub ticks: Vec<i64>,
    pub cross: u64,
    pub failing_forces: u64,
    /// a failing lazy forced by two different threads (the F11 shape)
    pub cross_thread_failing: bool,
    failing_by: Vec<Vec<usize>>,
    pub resumed_dead: u64,
    pub empties: u64,
    /// the model refuses histories it does not define (resuming a running thread)
    pub undefined: bool,
    /// yielding lazy: 0 = not forced, 1 + t = being evaluated by thread t (suspended in it), MAX = value
    ly: usize,
    pub waits_on_evaluating_lazy: u64,
}

fn tag_of(who: usize, pos: usize) -> i64 {
    if who == 0 {
        (pos as i64 + 1) * TAG
    } else {
        (100 * who as i64 + pos as i64 + 1) * TAG
    }
}

fn lazy_value(l: u8) -> i64 {
    100 * (l as i64 + 1) + 7
}

impl<'a> Model<'a> {
    pub fn new(h: &'a Hist) -> Model<'a> {
        let n = h.children.len();
        Model {
            h,
            ch: vec![VecDeque::new(); 2],
            refs: vec![0; 2],
            forced: vec![false; NLAZY as usize],
            ch_writer: vec![VecDeque::new(); 2],
            ref_writer: vec![usize::MAX; 2],
            lazy_forcer: vec![usize::MAX; NLAZY as usize],
            st: vec![St::NotSpawned; n],
            pc: vec![0; n],
            notes: Vec::new(),
            ticks: Vec::new(),
            cross: 0,
            failing_forces: 0,
            cross_thread_failing: false,
            failing_by: vec![Vec::new(); NLAZY as usize],
            resumed_dead: 0,
            empties: 0,
            undefined: false,
            ly: 0,
            waits_on_evaluating_lazy: 0,
        }
    }
    pub fn run(&mut self) {
        for (i, op) in self.h.main.iter().enumerate() {
            let _ = self.exec(0, i, op);
        }
    }
    fn force_normal(&mut self, who: usize, l: u8) -> i64 {
        if !self.forced[l as usize] {
            self.forced[l as usize] = true;
            self.ticks.push(100 * (l as i64 + 1));
            self.lazy_forcer[l as usize] = who;
        } else if self.lazy_forcer[l as usize] != who {
            self.cross += 1;
        }
        lazy_value(l)
    }
    /// returns true when the executing thread suspends at this operation (to be run again)
    fn exec(&mut self, who: usize, pos: usize, op: &Op) -> bool {
        let tag = tag_of(who, pos);
        match *op {
            Op::Send(c, v) => {
                self.ch[c as usize].push_back(v);
                self.ch_writer[c as usize].push_back(who);
            }
            Op::Recv(c) => {
                let v = match self.ch[c as usize].pop_front() {
                    Some(v) => {
                        if self.ch_writer[c as usize].pop_front() != Some(who) {
                            self.cross += 1;
                        }
                        v
                    }
                    None => {
                        self.empties += 1;
                        EMPTY
                    }
                };
                self.notes.push(tag + v);
            }
            Op::Store(r, v) => {
                self.refs[r as usize] = v;
                self.ref_writer[r as usize] = who;
            }
            Op::Load(r) => {
                if self.ref_writer[r as usize] != who && self.ref_writer[r as usize] != usize::MAX {
                    self.cross += 1;
                }
                self.notes.push(tag + self.refs[r as usize]);
            }
            Op::Force(l) if l == YIELDING => {
                if who == 0 {
                    // never generated: the main thread would wait for a suspended coroutine
                    self.undefined = true;
                    return false;
                }
                if self.ly == 0 {
                    // first force: the computation starts and suspends its thread half way
                    self.ly = 1 + who;
                    return true;
                } else if self.ly == 1 + who {
                    // the evaluator is resumed: the computation finishes
                    self.ticks.push(500);
                    self.ly = usize::MAX;
                    self.notes.push(tag + 507);
                } else if self.ly == usize::MAX {
                    self.cross += 1;
                    self.notes.push(tag + 507);
                } else {
                    // another thread is in the middle of it: wait
                    self.waits_on_evaluating_lazy += 1;
                    return true;
                }
            }
            Op::Force(l) => {
                let v = if l < FAILING {
                    self.force_normal(who, l)
                } else {
                    if l == 3 {
                        // fails after forcing lazy 1
                        self.force_normal(who, 1);
                    }
                    self.failing_forces += 1;
                    let by = &mut self.failing_by[l as usize];
                    if !by.contains(&who) {
                        by.push(who);
                        if by.len() > 1 {
                            self.cross_thread_failing = true;
                        }
                    }
                    FAILED
                };
                self.notes.push(tag + v);
            }
            Op::Yield => unreachable!("handled by resume"),
            Op::Spawn(k) => {
                self.st[k as usize] = St::Suspended;
            }
            Op::Resume(k) => {
                let k = k as usize;
                match self.st[k] {
                    St::Dead => {
                        self.resumed_dead += 1;
                        self.notes.push(tag + DEAD);
                    }
                    St::Running | St::NotSpawned => {
                        self.undefined = true;
                    }
                    St::Suspended => {
                        self.st[k] = St::Running;
                        let script = &self.h.children[k];
                        loop {
                            let p = self.pc[k];
                            if p >= script.len() {
                                self.st[k] = St::Dead;
                                break;
                            }
                            self.pc[k] += 1;
                            if script[p] == Op::Yield {
                                self.st[k] = St::Suspended;
                                break;
                            }
                            if self.exec(k + 1, p, &script[p]) {
                                self.pc[k] = p;
                                self.st[k] = St::Suspended;
                                break;
                            }
                        }
                        self.notes.push(tag + 1);
                    }
                }
            }
        }
        false
    }
}

// ---------------------------------------------------------------------------------------------
// program text

const HEADER: &str = r#"let { wrap } = import! std.applicative
let io @ { ? } = import! std.io
let array = import! std.array
let { Result } = import! std.types
let { send, recv, channel } = import! std.channel
let { spawn, yield, resume } = import! std.thread
let { ref, load, (<-) } = import! std.reference
let { lazy, force } = import! std.lazy
let fx = import! verif.fx
do log = ref [0]
let note x =
    do a = load log
    log <- array.append a [x]
let enc_recv0 r =
    match r with
    | Ok v -> v
    | Err _ -> 99999
let enc_recv1 r =
    match r with
    | Ok v -> array.index v 0 * 10 + array.len v
    | Err _ -> 99999
let enc_resume r =
    match r with
    | Ok _ -> 1
    | Err _ -> 99998
do { sender = s0, receiver = rc0 } = channel 0
do { sender = s1, receiver = rc1 } = channel [0]
do r0 = ref 0
do r1 = ref 0
let l0 = lazy (\_ -> fx.tick 100 + 7)
let l1 = lazy (\_ -> fx.tick 200 + 7)
let l2 = lazy (\_ -> if fx.tick 900 == 900 then error "boom" else 1)
let l3 = lazy (\_ -> if force l1 + fx.tick 900 > 0 then error "boom3" else 1)
let l5 =
    lazy (\_ ->
        let _ = yield ()
        let _ = yield ()
        fx.tick 500 + 7)
let l4 = lazy (\_ -> fx.tick 400 + force (fx.stashed ()))
let _ = fx.stash l4
let try_force l =
    do _ = wrap ()
    wrap (force l)
let forced l = io.catch (try_force l) (\e -> wrap 99997)
"#;

/// Array payload for channel 1: v encoded as [v / 10 ...] so that enc_recv1 gives v back:
/// first element v / 10 and length v % 10 (v % 10 forced into 1..=9 by the generator's values)
fn payload(c: u8, v: i64) -> String {
    if c == 0 {
        format!("{}", v)
    } else {
        let len = (v % 10).max(1);
        let first = v / 10;
        let mut s = String::from("[");
        for i in 0..len {
            if i > 0 {
                s.push_str(", ");
            }
            let _ = write!(s, "{}", if i == 0 { first } else { i });
        }
        s.push(']');
        s
    }
}

/// what enc_recv1 yields for a payload built from v
fn payload_obs(c: u8, v: i64) -> i64 {
    if c == 0 {
        v
    } else {
        (v / 10) * 10 + (v % 10).max(1)
    }
}

fn emit_ops(out: &mut String, h: &Hist, who: usize, ops: &[Op], ind: usize, var: &mut usize) {
    let pad = " ".repeat(ind);
    for (pos, op) in ops.iter().enumerate() {
        let tag = tag_of(who, pos);
        *var += 1;
        let x = format!("x{}", *var);
        match *op {
            Op::Send(c, v) => {
                let _ = writeln!(out, "{}do _ = send s{} {}", pad, c, payload(c, v));
            }
            Op::Recv(c) => {
                let _ = writeln!(out, "{}do {} = recv rc{}", pad, x, c);
                let _ = writeln!(out, "{}seq note ({} + enc_recv{} {})", pad, tag, c, x);
            }
            Op::Store(r, v) => {
                let _ = writeln!(out, "{}seq r{} <- {}", pad, r, v);
            }
            Op::Load(r) => {
                let _ = writeln!(out, "{}do {} = load r{}", pad, x, r);
                let _ = writeln!(out, "{}seq note ({} + {})", pad, tag, x);
            }
            Op::Force(l) if l == YIELDING => {
                // without io.catch: a nested call re-polls a pending computation once more and
                // would swallow the suspension this lazy exists for
                let _ = writeln!(out, "{}do {} = try_force l{}", pad, x, l);
                let _ = writeln!(out, "{}seq note ({} + {})", pad, tag, x);
            }
            Op::Force(l) => {
                let _ = writeln!(out, "{}do {} = forced l{}", pad, x, l);
                let _ = writeln!(out, "{}seq note ({} + {})", pad, tag, x);
            }
            Op::Yield => {
                let _ = writeln!(out, "{}let _ = yield ()", pad);
            }
            Op::Spawn(k) => {
                let _ = writeln!(out, "{}do t{} = spawn (", pad, k);
                // everything of the script, a leading yield included, must run in the child
                let _ = writeln!(out, "{}        do _ = wrap ()", pad);
                emit_ops(out, h, k as usize + 1, &h.children[k as usize], ind + 8, var);
                let _ = writeln!(out, "{}        wrap ()", pad);
                let _ = writeln!(out, "{}    )", pad);
            }
            Op::Resume(k) => {
                let _ = writeln!(out, "{}do {} = resume t{}", pad, x, k);
                let _ = writeln!(out, "{}seq note ({} + enc_resume {})", pad, tag, x);
            }
        }
    }
}

pub fn program(h: &Hist) -> String {
    let mut out = String::from(HEADER);
    let mut var = 0;
    emit_ops(&mut out, h, 0, &h.main, 0, &mut var);
    out.push_str("load log\n");
    out
}

// ---------------------------------------------------------------------------------------------

struct W {
    exhaustive: bool,
    waiters: bool,
    len: u32,
    vm: Option<gluon::RootedThread>,
    uses: u32,
}

fn parse_log(s: &str) -> Option<Vec<i64>> {
    let s = s.trim().strip_prefix('[')?.strip_suffix(']')?;
    if s.trim().is_empty() {
        return Some(vec![]);
    }
    s.split(',').map(|x| x.trim().parse::<i64>().ok()).collect()
}

/// the model's notes with channel-1 payload observations applied
fn expected_notes(h: &Hist) -> (Vec<i64>, Model<'_>) {
    // payload encoding: map values sent on channel 1 to what enc_recv1 reports. The model stores
    // raw values, so re-encode by running it on a history whose channel-1 values are normalised.
    let mut m = Model::new(h);
    m.run();
    (m.notes.clone(), m)
}

fn normalise(h: &mut Hist) {
    fn fix(ops: &mut [Op]) {
        for op in ops {
            if let Op::Send(1, v) = op {
                *v = payload_obs(1, *v);
            }
        }
    }
    fix(&mut h.main);
    for c in &mut h.children {
        fix(c);
    }
}

impl Worker for W {
    fn gen(&mut self, rng: &mut Rng, idx: u64) -> Option<Value> {
        let mut h = if self.waiters {
            waiters_case(idx, self.len + 2)?
        } else if self.exhaustive {
            exhaustive_case(idx, self.len)?
        } else {
            random_case(rng)
        };
        normalise(&mut h);
        let mut m = Model::new(&h);
        m.run();
        if m.undefined {
            return None;
        }
        let key = json!({"cross_thread_failing_force": m.cross_thread_failing});
        Some(json!({"history": serde_json::to_value(&h).unwrap(), "key": key}))
    }

    fn run(&mut self, case: &Value) -> CaseResult {
        let h: Hist = match serde_json::from_value(case["history"].clone()) {
            Ok(h) => h,
            Err(e) => return CaseResult::inconclusive(0, format!("bad case: {}", e)),
        };
        crate::worker::note_key(&case["key"]);
        let src = program(&h);
        let hash = hash_str(&case["history"].to_string());
        let (expect, m) = expected_notes(&h);
        if m.undefined {
            return CaseResult::skip("history not defined by the model");
        }
        if self.vm.is_none() || self.uses >= 150 {
            let mut s = Settings::PLAIN;
            s.prelude = true;
            s.run_io = true;
            let vm = vm_with(s);
            crate::fx::register(&vm);
            self.vm = Some(vm);
            self.uses = 0;
        }
        self.uses += 1;
        let vm = self.vm.as_ref().unwrap().clone();
        let _ = crate::fx::take_log();
        crate::fx::clear_stash();
        let name = format!("c17_{:x}", hash);
        let out = run_program(&vm, &name, &src);
        let fxlog = crate::fx::take_log();
        let nontrivial = m.cross > 0 || m.failing_forces > 0;
        let mut res = CaseResult::ok(hash, nontrivial);
        let sig_base = json!({"cross_thread_failing_force": m.cross_thread_failing});
        let viol = |kind: &str, msg: String| {
            let mut sig = sig_base.clone();
            sig["kind"] = json!(kind);
            CaseResult::violation(hash, msg, sig)
        };
        match &out {
            Outcome::Error(c, msg) => {
                // a broken VM must not be reused
                self.vm = None;
                if c == "parse" || c == "typecheck" || c == "macro" {
                    return CaseResult::inconclusive(hash, format!("generated program rejected: {} {}", c, msg));
                }
                return viol("program-failed", format!("the history's program failed instead of returning its log: [{}] {}", c, msg));
            }
            Outcome::Value(v, _) => {
                let got = match parse_log(v) {
                    Some(g) => g,
                    None => return CaseResult::inconclusive(hash, format!("log not parsed: {}", v)),
                };
                let got = &got[got.len().min(1)..];
                if got != &expect[..] {
                    let first = got.iter().zip(expect.iter()).position(|(a, b)| a != b).unwrap_or(got.len().min(expect.len()));
                    let kind = match (got.get(first), expect.get(first)) {
                        (Some(g), Some(e)) if g / TAG == e / TAG => match e % TAG {
                            EMPTY => "recv-on-empty",
                            DEAD => "resume-dead",
                            FAILED => "failing-force",
                            _ => match g % TAG {
                                EMPTY => "value-lost",
                                FAILED => "force-failed",
                                DEAD => "thread-dead-early",
                                _ => "wrong-value",
                            },
                        },
                        (None, Some(_)) => "observations-missing",
                        (Some(_), None) => "observations-extra",
                        _ => "order",
                    };
                    self.vm = None;
                    return viol(kind, format!("observation #{} differs: program saw {:?}, model says {:?} (full: got {:?} expected {:?})", first, got.get(first), expect.get(first), got, expect));
                }
            }
        }
        // lazy computations of normal lazies ran exactly as the model says (at most once each)
        let ticks: Vec<i64> = fxlog.iter().filter(|(n, v)| n == "tick" && *v != 900 && *v != 400).map(|(_, v)| *v).collect();
        if ticks != m.ticks {
            self.vm = None;
            return viol("lazy-computation-runs", format!("lazy computations ran {:?}, model says {:?}", ticks, m.ticks));
        }
        res.stat("operations", (h.main.len() + h.children.iter().map(|c| c.len()).sum::<usize>()) as u64);
        res.stat("observations_compared", expect.len() as u64);
        res.stat("cross_thread_observations", m.cross);
        res.stat("failing_forces", m.failing_forces);
        res.stat("resumes_of_finished_threads", m.resumed_dead);
        res.stat("receives_on_empty", m.empties);
        res.stat("lazy_computation_runs", ticks.len() as u64);
        res.stat("forces_waiting_for_a_suspended_evaluation", m.waits_on_evaluating_lazy);
        if m.cross_thread_failing {
            res.stat("histories_with_failing_lazy_forced_by_two_threads", 1);
            res.feat("cross-thread-failing-force");
        }
        res.feat(format!("threads-{}", h.children.len().min(h.main.iter().filter(|o| matches!(o, Op::Spawn(_))).count())));
        res.feat(format!("len-{}", (h.main.len() / 4) * 4));
        res
    }
}

pub fn dbg_main(args: &[String]) {
    let seed: u64 = args.get(0).and_then(|s| s.parse().ok()).unwrap_or(1);
    let mut rng = Rng::for_case(seed, "C17/dbg", 0);
    let mut h = random_case(&mut rng);
    normalise(&mut h);
    println!("{}", program(&h));
    let (e, _) = expected_notes(&h);
    println!("// expected {:?}", e);
}
