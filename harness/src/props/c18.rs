//! C18 — printed types read back as the same type, at every line width.
use crate::prop::*;
use gluon::base::symbol::{Symbol, SymbolModule, Symbols};
use crate::rng::{hash_str, Rng};
use gluon::base::ast::{Expr, ValueBindings};
use gluon::base::types::{self, ArcType, NullInterner, TypeCache, TypeFormatter};
use serde_json::{json, Value};

pub struct C18;

impl Prop for C18 {
    fn id(&self) -> &'static str {
        "C18"
    }
    fn rule(&self) -> &'static str {
        "types generated from the type grammar (functions, implicit arguments, forall at every position, records with type fields and row tails, tuples, arrays, applications, projections, effect rows, operator-named fields; at the top of a declaration also variants, GADT-style constructors and open variants) are built by parsing an explicit spelling, rendered with Display and TypeFormatter::width(w) for w in 20..200, parsed back with the real parser in the same position and compared structurally (ArcType<String> equality); non-trivial = the type has >= 4 nodes; distinct = (type text, width)"
    }
    fn assumptions(&self) -> Vec<String> {
        vec!["types are the ones the surface grammar can express; inference-only forms (skolems, unification variables) are outside this check".into()]
    }
    fn phases(&self, tier: Tier) -> Vec<Phase> {
        vec![
            Phase::new("types", tier.pick(40000, 3000000)).min_cases(tier.pick(10000, 600000)).timeouts(60, tier.pick(300, 1500)),
            Phase::new("declarations", tier.pick(20000, 1500000)).min_cases(tier.pick(5000, 300000)).timeouts(60, tier.pick(300, 1500)),
        ]
    }
    fn worker(&self, ctx: &WorkerCtx) -> Box<dyn Worker> {
        Box::new(W { decl: ctx.phase == "declarations", tier: ctx.tier })
    }
}

struct W {
    decl: bool,
    tier: Tier,
}

const UPPER: &[&str] = &["Foo", "Bar", "Option", "Map", "Test", "M"];
const LOWER: &[&str] = &["a", "b", "c", "r", "s"];
const FIELDS: &[&str] = &["x", "y", "name", "value", "(+)", "(<|>)", "f", "long_field_name_to_force_a_break"];
const BUILTIN: &[&str] = &["Int", "Float", "String", "Byte", "Char", "()"];

fn atom(rng: &mut Rng, d: u32, nodes: &mut u32) -> String {
    *nodes += 1;
    if d == 0 {
        return match rng.below(3) {
            0 => rng.pick(BUILTIN).to_string(),
            1 => rng.pick(UPPER).to_string(),
            _ => rng.pick(LOWER).to_string(),
        };
    }
    match rng.below(12) {
        0 | 1 => rng.pick(BUILTIN).to_string(),
        2 => rng.pick(UPPER).to_string(),
        3 => rng.pick(LOWER).to_string(),
        4 => format!("{}.{}", rng.pick(&["std", "m", "std.types"]), rng.pick(UPPER)),
        5 => {
            let n = 2 + rng.below(3);
            format!("({})", (0..n).map(|_| ty(rng, d - 1, nodes)).collect::<Vec<_>>().join(", "))
        }
        6 | 7 => {
            // record
            let n = rng.below(5);
            let mut fields: Vec<String> = Vec::new();
            let mut used: Vec<&str> = Vec::new();
            if rng.chance(1, 4) {
                let t = rng.pick(UPPER);
                match rng.below(3) {
                    0 => fields.push(t.to_string()),
                    1 => fields.push(format!("{} = {}", t, ty(rng, d - 1, nodes))),
                    _ => fields.push(format!("{} a = {}", t, ty(rng, d - 1, nodes))),
                }
            }
            for _ in 0..n {
                let f = *rng.pick(FIELDS);
                if used.contains(&f) {
                    continue;
                }
                used.push(f);
                fields.push(format!("{} : {}", f, ty(rng, d - 1, nodes)));
            }
            let tail = if rng.chance(1, 4) { format!(" | {}", rng.pick(LOWER)) } else { String::new() };
            if fields.is_empty() && tail.is_empty() {
                "{ }".to_string()
            } else {
                format!("{{ {}{} }}", fields.join(", "), tail)
            }
        }
        8 => {
            // effect row
            let n = 1 + rng.below(2);
            let fs: Vec<String> = (0..n).map(|i| format!("{} : {}", ["st", "err", "alt"][i], app(rng, d - 1, nodes))).collect();
            let tail = if rng.chance(1, 2) { format!(" | {}", rng.pick(LOWER)) } else { String::new() };
            format!("[| {}{} |]", fs.join(", "), tail)
        }
        9 => format!("(.. {})", rng.pick(LOWER)),
        10 => format!("({})", ty(rng, d - 1, nodes)),
        _ => format!("(Array {})", atom(rng, d - 1, nodes)),
    }
}

fn app(rng: &mut Rng, d: u32, nodes: &mut u32) -> String {
    if d > 0 && rng.chance(1, 3) {
        *nodes += 1;
        let head = match rng.below(4) {
            0 => rng.pick(LOWER).to_string(),
            1 => "Array".to_string(),
            _ => rng.pick(UPPER).to_string(),
        };
        let n = 1 + rng.below(2);
        format!("{} {}", head, (0..n).map(|_| atom(rng, d - 1, nodes)).collect::<Vec<_>>().join(" "))
    } else {
        atom(rng, d, nodes)
    }
}

fn ty(rng: &mut Rng, d: u32, nodes: &mut u32) -> String {
    if d == 0 {
        return app(rng, 0, nodes);
    }
    match rng.below(8) {
        0 | 1 | 2 => {
            *nodes += 1;
            let arg = if rng.chance(1, 4) { format!("[{}]", ty(rng, d - 1, nodes)) } else { app(rng, d - 1, nodes) };
            format!("{} -> {}", arg, ty(rng, d - 1, nodes))
        }
        3 => {
            *nodes += 1;
            let n = 1 + rng.below(2);
            let vars: Vec<&str> = LOWER[..n].to_vec();
            format!("forall {} . {}", vars.join(" "), ty(rng, d - 1, nodes))
        }
        _ => app(rng, d, nodes),
    }
}

fn decl_body(rng: &mut Rng, d: u32, nodes: &mut u32) -> String {
    match rng.below(5) {
        0 => ty(rng, d, nodes),
        1 | 2 => {
            let n = 1 + rng.below(4);
            let mut s = String::new();
            for i in 0..n {
                *nodes += 1;
                let k = rng.below(3);
                s.push_str(&format!("| C{}{}", i, (0..k).map(|_| format!(" {}", atom(rng, d.saturating_sub(1), nodes))).collect::<String>()));
                s.push(' ');
            }
            if rng.chance(1, 4) {
                s.push_str(&format!(".. {}", rng.pick(LOWER)));
            }
            s.trim_end().to_string()
        }
        3 => {
            // GADT style
            let n = 1 + rng.below(3);
            let mut s = String::new();
            for i in 0..n {
                *nodes += 1;
                let k = rng.below(3);
                let args: String = (0..k).map(|_| format!("{} -> ", app(rng, d.saturating_sub(1), nodes))).collect();
                s.push_str(&format!("| G{} : {}T {} ", i, args, atom(rng, 0, nodes)));
            }
            s.trim_end().to_string()
        }
        _ => format!("forall a . ( | A a | B (T a) )"),
    }
}

/// parses `text` as a type in the given position and translates it to an ArcType<String>
fn read_type(symbols: &mut Symbols, text: &str, decl: bool) -> Result<ArcType<Symbol>, String> {
    let src = if decl { format!("type T a b =\n    {}\n()\n", text.replace('\n', "\n    ")) } else { format!("let x :\n        {}\n    = ()\n()\n", text.replace('\n', "\n        ")) };
    let mut env = SymbolModule::new("c18".into(), symbols);
    let root = gluon::parser::parse_partial_root_expr(&mut env, &TypeCache::default(), src.as_str()).map_err(|(_, e)| format!("{}", e.into_iter().map(|x| x.to_string()).collect::<Vec<_>>().join("; ")))?;
    match &root.expr().value {
        Expr::LetBindings(ValueBindings::Plain(b), _) => match &b.typ {
            Some(t) => Ok(types::translate_type(&mut NullInterner, t)),
            None => Err("no type annotation found".into()),
        },
        Expr::TypeBindings(binds, _) => {
            let alias = &binds[0].alias.value;
            Ok(types::translate_type(&mut NullInterner, alias.unresolved_type()))
        }
        other => Err(format!("unexpected parse result {:?}", std::mem::discriminant(other))),
    }
}

impl Worker for W {
    fn gen(&mut self, rng: &mut Rng, idx: u64) -> Option<Value> {
        let d = 1 + rng.below(4) as u32;
        let mut nodes = 0;
        let text = if self.decl { decl_body(rng, d, &mut nodes) } else { ty(rng, d, &mut nodes) };
        let widths: Vec<usize> = match self.tier {
            Tier::Quick => {
                let w0 = 20 + 10 * (idx % 19) as usize;
                vec![w0, 20 + 10 * ((idx / 19 + 7) % 19) as usize, 80, 200, 20]
            }
            Tier::Thorough => (0..19).map(|i| 20 + 10 * i).collect(),
        };
        Some(json!({"type": text, "nodes": nodes, "widths": widths}))
    }

    fn run(&mut self, case: &Value) -> CaseResult {
        let text = case["type"].as_str().unwrap();
        let h = hash_str(text);
        let mut symbols = Symbols::new();
        let t0 = match crate::worker::guarded(|| read_type(&mut symbols, text, self.decl)) {
            Ok(Ok(t)) => t,
            Ok(Err(e)) => {
                // the generator's own spelling must be valid syntax: a failure here is a harness gap
                let mut r = CaseResult::skip(&e);
                r.stat("generator_spellings_rejected", 1);
                r.feat(format!("rejected: {}", e.chars().take(50).collect::<String>()));
                return r;
            }
            Err((loc, msg)) => return CaseResult::violation(h, format!("parser panicked on type `{}` at {}: {}", text, loc, msg), json!({"kind": "host-panic", "location": crate::worker::strip_repo(&loc)})),
        };
        let mut r = CaseResult::ok(h, case["nodes"].as_u64().unwrap_or(0) >= 4);
        let mut renders: Vec<(String, String)> = vec![("display".into(), t0.to_string())];
        for w in case["widths"].as_array().unwrap() {
            let w = w.as_u64().unwrap() as usize;
            renders.push((format!("width {}", w), format!("{}", TypeFormatter::new(&t0).width(w))));
        }
        for (label, rendered) in renders {
            r.stat("renderings_read_back", 1);
            match crate::worker::guarded(|| read_type(&mut symbols, &rendered, self.decl)) {
                Ok(Ok(t1)) => {
                    if t1 != t0 {
                        return CaseResult::violation(
                            h,
                            format!("type rendered with {} reads back as a different type\n--- original spelling\n{}\n--- rendered\n{}\n--- read back and rendered again\n{}", label, text, rendered, t1),
                            json!({"kind": "reads-back-different"}),
                        );
                    }
                }
                Ok(Err(e)) => {
                    // which known spelling problems does the rendering show? (narrow attribution)
                    let bare_open_variant = rendered.match_indices("..").any(|(i, _)| {
                        let after = rendered[i + 2..].trim_start();
                        let rest = after.trim_start_matches(|c: char| c.is_alphanumeric() || c == '_');
                        !(rendered[..i].trim_end().ends_with('(') && rest.trim_start().starts_with(')'))
                    });
                    let forall_variant = rendered.contains("forall") && rendered.lines().skip(1).any(|l| l.trim_start().starts_with('|') || l.trim_start().starts_with(".."));
                    let _ = (bare_open_variant, forall_variant);
                    return CaseResult::violation(h, format!("type rendered with {} does not parse: {}\n--- original spelling\n{}\n--- rendered\n{}", label, e, text, rendered), json!({"bare_open_variant": bare_open_variant, "quantified_variant_without_parentheses": forall_variant, "kind": "rendered-type-unparsable", "error": e.trim_start_matches(|c: char| c.is_ascii_digit() || c == ':' || c == ' ').lines().next().unwrap_or("").to_string()}));
                }
                Err((loc, msg)) => return CaseResult::violation(h, format!("parser panicked on rendered type at {}: {}\n{}", loc, msg, rendered), json!({"kind": "host-panic", "location": crate::worker::strip_repo(&loc)})),
            }
        }
        r
    }
}
