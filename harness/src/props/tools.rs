//! Debug tool: `gv eval <file> [--prelude] [--noopt] [--io] [--mod name file]...`; chunks
//! separated by a line `-----` are evaluated in order on one VM.
use crate::vmutil::*;
use gluon::ThreadExt;

pub fn eval(args: &[String]) {
    let mut s = Settings::PLAIN;
    let mut files = vec![];
    let mut mods = vec![];
    let mut i = 0;
    while i < args.len() {
        match args[i].as_str() {
            "--prelude" => s.prelude = true,
            "--noopt" => s.optimize = false,
            "--io" => s.run_io = true,
            "--mod" => {
                mods.push((args[i + 1].clone(), std::fs::read_to_string(&args[i + 2]).unwrap()));
                i += 2;
            }
            f => files.push(f.to_string()),
        }
        i += 1;
    }
    crate::worker::install_panic_hook();
    let vm = vm_with(s);
    crate::fx::register(&vm);
    for (n, src) in &mods {
        println!("load {} => {:?}", n, vm.load_script(n, src).map_err(|e| e.to_string()));
    }
    for f in files {
        let src = std::fs::read_to_string(&f).unwrap();
        for (k, chunk) in src.split("\n-----\n").enumerate() {
            let r = crate::worker::guarded(|| run_program(&vm, &format!("m{}", k), chunk));
            match r {
                Ok(o) => {
                    println!("[{}] {}", k, match &o { Outcome::Value(v, t) => format!("OK {} : {}", v, t), Outcome::Error(c, m) => format!("ERR[{}] {}", c, m) });
                    if std::env::var("GV_FULL").is_ok() {
                        if let Err(e) = vm.run_expr::<gluon::vm::api::OpaqueValue<&gluon::Thread, gluon::vm::api::Hole>>(&format!("mm{}", k), chunk) {
                            println!("{}", e.to_string().lines().take(30).collect::<Vec<_>>().join("\n"));
                        }
                    }
                }
                Err((loc, msg)) => println!("[{}] PANIC {} {}", k, loc, msg),
            }
        }
    }
}

/// `gv dbg01 <n> <seed> <show>`: generate n programs, run, group disagreements by message
pub fn dbg01(args: &[String]) {
    use crate::lang::gen::{gen_program, GenOpts};
    use crate::lang::print::{print_program, Style};
    use crate::lang::reval::run_reference;
    use std::collections::BTreeMap;
    crate::worker::install_panic_hook();
    let n: u64 = args.get(0).and_then(|s| s.parse().ok()).unwrap_or(200);
    let seed: u64 = args.get(1).and_then(|s| s.parse().ok()).unwrap_or(1);
    let show: usize = args.get(2).and_then(|s| s.parse().ok()).unwrap_or(1);
    let mut groups: BTreeMap<String, Vec<String>> = BTreeMap::new();
    let mut plain = Settings::PLAIN;
    plain.optimize = std::env::var("GV_OPT").is_ok();
    let mut vm = vm_with(plain);
    crate::fx::register(&vm);
    for i in 0..n {
        let mut rng = crate::rng::Rng::for_case(seed, "dbg", i);
        let mut opts = GenOpts::default_ordered();
        opts.max_depth = 3 + rng.below(5) as u32;
        opts.node_budget = 30 + rng.below(90) as i32;
        let g = gen_program(&mut rng, opts);
        let (expect, _, _) = run_reference(&g.program, 300_000, false);
        let style = Style::from_bits(rng.next() as u32 & 0b11011);
        let src = print_program(&g.program, style);
        let ej = crate::props::c01::ref_to_json(&expect);
        set_call_budget(&vm, 2_000_000);
        let res = crate::worker::guarded(|| match vm.run_expr::<gluon::vm::api::OpaqueValue<&gluon::Thread, gluon::vm::api::Hole>>("dbg", &src) {
            Ok((v, t)) => {
                let mut s = String::new();
                render(v.get_ref(), &mut s, 0);
                (Outcome::Value(s, t.to_string()), String::new())
            }
            Err(e) => {
                let (c, m) = classify_error(&e);
                (Outcome::Error(c, m), e.to_string())
            }
        });
        let key = match &res {
            Ok((o, full)) => {
                if crate::props::c01::agrees(&ej, o) {
                    continue;
                }
                let l: Vec<&str> = full.lines().filter(|l| !l.trim().is_empty()).take(2).collect();
                format!("expect {} got {} :: {}", crate::props::c01::expect_class(&ej), crate::props::c01::outcome_class(o), if l.is_empty() { o.short() } else { l.join(" | ") })
            }
            Err((loc, msg)) => {
                vm = vm_with(plain);
                crate::fx::register(&vm);
                format!("PANIC {} {}", loc, msg.lines().next().unwrap_or(""))
            }
        };
        if let Ok(pat) = std::env::var("GV_REDUCE") {
            if key.contains(&pat) {
                let sig = |p: &crate::lang::ast::Program, vm: &mut gluon::RootedThread| -> String {
                    let src = print_program(p, Style::EXPLICIT);
                    set_call_budget(vm, 2_000_000);
                    let r = crate::worker::guarded(|| run_program(vm, "red", &src));
                    match r {
                        Ok(Outcome::Error(c, m)) => format!("{}:{}", c, m.chars().take(40).collect::<String>()),
                        Ok(Outcome::Value(..)) => "value".into(),
                        Err((loc, _)) => {
                            *vm = vm_with(plain);
                            format!("PANIC {}", loc)
                        }
                    }
                };
                let want = sig(&g.program, &mut vm);
                if want != "value" && !want.starts_with("typecheck") && !want.starts_with("parse") {
                    let mut vm2 = vm_with(plain);
                    let red = crate::lang::reduce::reduce(&g.program, &mut |p| sig(p, &mut vm2) == want, 3000);
                    println!("######## reduced case {} signature {}\n{}", i, want, print_program(&red, Style::EXPLICIT));
                }
            }
        }
        let key: String = key.chars().map(|c| if c.is_ascii_digit() { '#' } else { c }).take(160).collect();
        let detail = match &res {
            Ok((o, full)) => format!("---- case {} expect {}\n{}\n-- got {}\n{}", i, ej, src, o.short(), full.lines().take(25).collect::<Vec<_>>().join("\n")),
            Err((loc, msg)) => format!("---- case {} expect {}\n{}\n-- PANIC {} {}", i, ej, src, loc, msg),
        };
        groups.entry(key).or_default().push(detail);
    }
    let mut gs: Vec<_> = groups.into_iter().collect();
    gs.sort_by_key(|g| std::cmp::Reverse(g.1.len()));
    for (k, v) in &gs {
        println!("{:5}  {}", v.len(), k);
    }
    for (k, v) in &gs {
        println!("\n================ {} (x{})", k, v.len());
        let mut v2: Vec<&String> = v.iter().collect();
        v2.sort_by_key(|s| s.len());
        for d in v2.iter().take(show) {
            println!("{}", d);
        }
    }
}

/// `gv reduce <replay.json>`: shrink a violation of an AST-carrying case keeping its signature
pub fn reduce01(args: &[String]) {
    use crate::lang::ast::Program;
    use crate::lang::print::{print_program, Style};
    use crate::lang::reval::run_reference;
    use crate::prop::{Tier, Verdict, WorkerCtx, Build};
    crate::worker::install_panic_hook();
    let doc: serde_json::Value = serde_json::from_str(&std::fs::read_to_string(&args[0]).unwrap()).unwrap();
    let case = doc["case"].clone();
    let pid = doc["property"].as_str().unwrap_or("C01").to_string();
    let prop = crate::props::lookup(&pid).expect("property");
    let prog: Program = serde_json::from_value(case["ast"].clone()).expect("case has no ast");
    let style = Style::from_bits(case["style_bits"].as_u64().unwrap_or(1) as u32);
    let want = doc["signature"].clone();
    let mk = || prop.worker(&WorkerCtx { tier: Tier::Quick, seed: 1, phase: doc["phase"].as_str().unwrap_or("random").to_string(), build: Build::Debug });
    let mut w = mk();
    let needs_expect = case.get("expect").is_some();
    let death = matches!(want["kind"].as_str(), Some("native-stack-overflow") | Some("abort-nounwind-panic") | Some("crash") | Some("sanitizer") | Some("alloc-failure"));
    let mut test = |p: &Program| -> bool {
        let mut c = case.clone();
        if death {
            c["src"] = serde_json::json!(print_program(p, style));
            c["ast"] = serde_json::to_value(p).unwrap();
            let mut d2 = doc.clone();
            d2["case"] = c;
            let r = crate::sup::run_case_in_child(&d2);
            return r.verdict == Verdict::Violation && r.sig["kind"] == want["kind"] && r.sig["location"] == want["location"];
        }
        if needs_expect {
            let (expect, _, _) = run_reference(p, 300_000, false);
            if let crate::lang::reval::RefOutcome::Fail(crate::lang::reval::Fail::Stuck(_)) = expect {
                return false;
            }
            c["expect"] = crate::props::c01::ref_to_json(&expect);
        }
        c["src"] = serde_json::json!(print_program(p, style));
        c["ast"] = serde_json::to_value(p).unwrap();
        c["gc_stress"] = serde_json::json!(0);
        match crate::worker::guarded(|| w.run(&c)) {
            Ok(r) => r.verdict == Verdict::Violation && r.sig == want,
            Err((loc, _)) => {
                w = mk();
                want["kind"] == "host-panic" && want["location"].as_str() == Some(crate::worker::strip_repo(&loc).as_str())
            }
        }
    };
    if !test(&prog) {
        println!("does not reproduce in-process (signature {})", want);
        return;
    }
    let red = crate::lang::reduce::reduce(&prog, &mut test, 5000);
    println!("signature {}\n{}", want, print_program(&red, style));
    let mut c = case.clone();
    c["src"] = serde_json::json!(print_program(&red, style));
    c["ast"] = serde_json::to_value(&red).unwrap();
    if death {
        return;
    }
    if let Ok(r) = crate::worker::guarded(|| w.run(&c)) {
        println!("-- {}", r.msg.lines().next().unwrap_or(""));
    }
}

/// `gv c05-families`: print each family program once and its unstressed outcome (debug aid)
pub fn c05_families() {
    crate::worker::install_panic_hook();
    for seed in 0..60u64 {
        let mut rng = crate::rng::Rng::new(seed);
        let p = crate::props::lookup("C05").unwrap();
        let mut w = p.worker(&crate::prop::WorkerCtx { tier: crate::prop::Tier::Quick, seed: 1, phase: "alloc-family".into(), build: crate::prop::Build::Debug });
        let c = w.gen(&mut rng, seed).unwrap();
        let mut s = Settings::PLAIN;
        s.prelude = true;
        s.run_io = true;
        let vm = vm_with(s);
        let mut ok = true;
        for m in c["modules"].as_array().cloned().unwrap_or_default() {
            if let Err(e) = vm.load_script(m[0].as_str().unwrap(), m[1].as_str().unwrap()) {
                println!("MODULE {} ERR {}", m[0], e);
                ok = false;
            }
        }
        if !ok {
            continue;
        }
        let res = vm.run_expr::<gluon::vm::api::OpaqueValue<&gluon::Thread, gluon::vm::api::Hole>>("fam", c["src"].as_str().unwrap()).map(|_| ());
        match res {
            Ok(_) => {}
            Err(e) => println!("=== {} ERR\n{}\n{}", c["family"], c["src"].as_str().unwrap().lines().skip(20).collect::<Vec<_>>().join("\n"), e.to_string().lines().take(14).collect::<Vec<_>>().join("\n")),
        }
    }
}

/// `gv twice <file>`: evaluate the same source under the same module name twice, then compile
/// it to bytecode (debug aid for order-dependence)
pub fn twice(args: &[String]) {
    crate::worker::install_panic_hook();
    let src = std::fs::read_to_string(&args[0]).unwrap();
    let vm = vm_with(Settings::PLAIN);
    for i in 0..2 {
        println!("run {}: {}", i, run_program(&vm, "same", &src).short());
    }
    let mut buf = Vec::new();
    let mut ser = serde_json::Serializer::new(&mut buf);
    let r = futures::executor::block_on(vm.compile_to_bytecode("same", &src, &mut ser)).map(|_| ()).map_err(|e| e.to_string());
    println!("compile_to_bytecode same name: {:?}", r.map_err(|e| e.lines().take(12).collect::<Vec<_>>().join("\n")));
    let vm2 = vm_with(Settings::PLAIN);
    let mut buf = Vec::new();
    let mut ser = serde_json::Serializer::new(&mut buf);
    let r = futures::executor::block_on(vm2.compile_to_bytecode("other", &src, &mut ser)).map(|_| ()).map_err(|e| e.to_string());
    println!("compile_to_bytecode fresh vm: {:?}", r.map_err(|e| e.lines().take(12).collect::<Vec<_>>().join("\n")));
}

/// `gv fmt <file>`: print the formatter's output for a file (debug aid)
pub fn fmt(args: &[String]) {
    crate::worker::install_panic_hook();
    let src = std::fs::read_to_string(&args[0]).unwrap();
    let vm = vm_with(Settings { prelude: true, ..Settings::PLAIN });
    let mut f = gluon_format::Formatter { expanded: false };
    match vm.format_expr(&mut f, "fmt", &src) {
        Ok(o) => print!("{}", o),
        Err(e) => println!("ERROR {}", e),
    }
}
