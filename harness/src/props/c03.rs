//! C03 — type inference is complete and principal on the ML fragment: an independent algorithm W
//! (let-polymorphism, ordered closed records, row-polymorphic field access, tuples, arrays, one
//! declared variant type) decides every generated untyped term; gluon's checker must accept
//! exactly the terms W types and report the same type up to renaming of variables and placement
//! of quantifiers; alpha-renaming, annotating with the inferred type and adding an unused binding
//! must change nothing.
use crate::prop::*;
use crate::rng::{hash_str, Rng};
use crate::vmutil::*;
use gluon::ThreadExt;
use serde_derive::{Deserialize, Serialize};
use serde_json::{json, Value};
use std::collections::{BTreeMap, BTreeSet};

pub struct C03;

impl Prop for C03 {
    fn id(&self) -> &'static str {
        "C03"
    }
    fn rule(&self) -> &'static str {
        "untyped closed terms over {variable, lambda, application, let, int / string / float literal, #Int+ and #Int<, if, closed ordered record literal, field access, tuple, array literal, the declared variant type `Opt a = | No | Yes a` with its constructors and a two-arm match}; an independent algorithm W in the harness (union-find types, let-generalisation of every binding, row cells: closed rows are sequences, rows introduced by field access are open finite maps with a tail) computes `untypable` or the principal type; gluon's typecheck_str (no implicit prelude) must accept exactly the typable terms, and its reported type, rendered and re-parsed by the harness, must equal W's type after numbering variables by first occurrence (open-row fields sorted, quantifier placement ignored); three metamorphic variants of every accepted term (all binders alpha-renamed; the term bound with an annotation of its own reported type; an unused binding added) must be accepted with the same type; non-trivial = the term has >= 6 nodes and uses a let or a record; distinct = term"
    }
    fn assumptions(&self) -> Vec<String> {
        vec![
            "W is the specification only on this fragment; implicit arguments, higher-rank annotations, GADTs, effects and update of open records are not generated".into(),
            "row discipline of the model (from the language book, confirmed by probes): record literals have closed rows whose field order is significant; `r.f` constrains r to an open row containing f anywhere".into(),
        ]
    }
    fn phases(&self, tier: Tier) -> Vec<Phase> {
        vec![
            Phase::new("random-terms", tier.pick(30_000, 100_000)).min_cases(tier.pick(10_000, 25_000)).timeouts(120, tier.pick(400, 3000)),
            Phase::new("small-terms", tier.pick(20_000, 600_000)).min_cases(tier.pick(8000, 200_000)).timeouts(120, tier.pick(400, 3000)),
        ]
    }
    fn worker(&self, ctx: &WorkerCtx) -> Box<dyn Worker> {
        // checking a term of <= 60 nodes takes milliseconds; 12 s of CPU without an answer (dropping the worker's long-lived VM inside a case can itself cost seconds) is a hang
        crate::worker::set_cpu_budget(12.0);
        Box::new(W { small: ctx.phase == "small-terms", vm: None, uses: 0 })
    }
}

// ---------------------------------------------------------------------------------------------
// terms

#[derive(Clone, Debug, Serialize, Deserialize, PartialEq)]
pub enum Tm {
    Var(String),
    Lam(String, Box<Tm>),
    App(Box<Tm>, Box<Tm>),
    Let(String, Box<Tm>, Box<Tm>),
    Int(i64),
    Str(String),
    Float(i64),
    Add(Box<Tm>, Box<Tm>),
    Lt(Box<Tm>, Box<Tm>),
    If(Box<Tm>, Box<Tm>, Box<Tm>),
    Rec(Vec<(String, Tm)>),
    Proj(Box<Tm>, String),
    Tup(Vec<Tm>),
    Arr(Vec<Tm>),
    No,
    Yes(Box<Tm>),
    /// match scrutinee with | No -> a | Yes x -> b
    MatchOpt(Box<Tm>, Box<Tm>, String, Box<Tm>),
}

impl Tm {
    fn size(&self) -> usize {
        use Tm::*;
        1 + match self {
            Var(_) | Int(_) | Str(_) | Float(_) | No => 0,
            Lam(_, b) | Proj(b, _) | Yes(b) => b.size(),
            App(a, b) | Let(_, a, b) | Add(a, b) | Lt(a, b) => a.size() + b.size(),
            If(a, b, c) => a.size() + b.size() + c.size(),
            Rec(fs) => fs.iter().map(|f| f.1.size()).sum(),
            Tup(xs) | Arr(xs) => xs.iter().map(|x| x.size()).sum(),
            MatchOpt(s, a, _, b) => s.size() + a.size() + b.size(),
        }
    }
    fn uses_let_or_record(&self) -> bool {
        use Tm::*;
        match self {
            Let(..) | Rec(_) | Proj(..) => true,
            Var(_) | Int(_) | Str(_) | Float(_) | No => false,
            Lam(_, b) | Yes(b) => b.uses_let_or_record(),
            App(a, b) | Add(a, b) | Lt(a, b) => a.uses_let_or_record() || b.uses_let_or_record(),
            If(a, b, c) => a.uses_let_or_record() || b.uses_let_or_record() || c.uses_let_or_record(),
            Tup(xs) | Arr(xs) => xs.iter().any(|x| x.uses_let_or_record()),
            MatchOpt(s, a, _, b) => s.uses_let_or_record() || a.uses_let_or_record() || b.uses_let_or_record(),
        }
    }
}

pub fn print_tm(t: &Tm) -> String {
    let mut out = String::new();
    pr(t, &mut out);
    out
}

fn col(out: &str) -> usize {
    out.len() - out.rfind('\n').map_or(0, |i| i + 1)
}

/// One-line printing, except `match`, whose alternatives go on their own lines, indented one
/// column past the opening parenthesis (what the layout pass wants)
fn pr(t: &Tm, out: &mut String) {
    use Tm::*;
    match t {
        Var(x) => out.push_str(x),
        Lam(x, b) => {
            out.push_str(&format!("(\\{} -> ", x));
            pr(b, out);
            out.push(')');
        }
        App(f, a) => {
            out.push('(');
            pr(f, out);
            out.push(' ');
            pr(a, out);
            out.push(')');
        }
        Let(x, a, b) => {
            out.push_str(&format!("(let {} = ", x));
            pr(a, out);
            out.push_str(" in ");
            pr(b, out);
            out.push(')');
        }
        Int(i) => out.push_str(&format!("{}", i)),
        Str(s) => out.push_str(&format!("\"{}\"", s)),
        Float(f) => out.push_str(&format!("{}.5", f)),
        Add(a, b) | Lt(a, b) => {
            out.push('(');
            pr(a, out);
            out.push_str(if matches!(t, Add(..)) { " #Int+ " } else { " #Int< " });
            pr(b, out);
            out.push(')');
        }
        If(c, a, b) => {
            out.push_str("(if ");
            pr(c, out);
            out.push_str(" then ");
            pr(a, out);
            out.push_str(" else ");
            pr(b, out);
            out.push(')');
        }
        Rec(fs) => {
            if fs.is_empty() {
                out.push_str("{ }");
            } else {
                out.push_str("{ ");
                for (i, (n, t)) in fs.iter().enumerate() {
                    if i > 0 {
                        out.push_str(", ");
                    }
                    out.push_str(n);
                    out.push_str(" = ");
                    pr(t, out);
                }
                out.push_str(" }");
            }
        }
        Proj(t, f) => {
            out.push('(');
            pr(t, out);
            out.push_str(").");
            out.push_str(f);
        }
        Tup(xs) | Arr(xs) => {
            out.push(if matches!(t, Tup(_)) { '(' } else { '[' });
            for (i, x) in xs.iter().enumerate() {
                if i > 0 {
                    out.push_str(", ");
                }
                pr(x, out);
            }
            out.push(if matches!(t, Tup(_)) { ')' } else { ']' });
        }
        No => out.push_str("No"),
        Yes(t) => {
            out.push_str("(Yes ");
            pr(t, out);
            out.push(')');
        }
        MatchOpt(s, a, x, b) => {
            let c = col(out);
            out.push_str("(match ");
            pr(s, out);
            out.push_str(" with\n");
            out.push_str(&" ".repeat(c + 1));
            out.push_str("| No -> ");
            pr(a, out);
            out.push('\n');
            out.push_str(&" ".repeat(c + 1));
            out.push_str(&format!("| Yes {} -> ", x));
            pr(b, out);
            out.push(')');
        }
    }
}

const PRE: &str = "type Opt a = | No | Yes a\n";

fn program(t: &Tm) -> String {
    format!("{}{}\n", PRE, print_tm(t))
}

// ---------------------------------------------------------------------------------------------
// algorithm W

#[derive(Clone, Debug, PartialEq)]
enum Ty {
    Var(u32),
    Int,
    Str,
    Float,
    Bool,
    Fun(Box<Ty>, Box<Ty>),
    Arr(Box<Ty>),
    Opt(Box<Ty>),
    /// record whose row is the cell with this id
    Rec(u32),
}

#[derive(Clone, Debug)]
enum Cell {
    Closed(Vec<(String, Ty)>),
    Open(BTreeMap<String, Ty>),
    Link(u32),
}

#[derive(Clone, Debug)]
struct Scheme {
    vars: Vec<u32>,
    cells: Vec<u32>,
    ty: Ty,
}

struct Infer {
    sub: BTreeMap<u32, Ty>,
    cells: Vec<Cell>,
    next: u32,
    steps: u64,
}

type R<T> = Result<T, String>;

impl Infer {
    fn new() -> Infer {
        Infer { sub: BTreeMap::new(), cells: Vec::new(), next: 0, steps: 0 }
    }
    fn fresh(&mut self) -> Ty {
        self.next += 1;
        Ty::Var(self.next)
    }
    fn new_cell(&mut self, c: Cell) -> u32 {
        self.cells.push(c);
        (self.cells.len() - 1) as u32
    }
    fn find_cell(&self, mut c: u32) -> u32 {
        while let Cell::Link(n) = &self.cells[c as usize] {
            c = *n;
        }
        c
    }
    fn resolve(&self, t: &Ty) -> Ty {
        let mut t = t.clone();
        while let Ty::Var(v) = t {
            match self.sub.get(&v) {
                Some(n) => t = n.clone(),
                None => return Ty::Var(v),
            }
        }
        t
    }
    fn occurs(&self, v: u32, t: &Ty, seen: &mut BTreeSet<u32>) -> bool {
        match self.resolve(t) {
            Ty::Var(w) => v == w,
            Ty::Int | Ty::Str | Ty::Float | Ty::Bool => false,
            Ty::Fun(a, b) => self.occurs(v, &a, seen) || self.occurs(v, &b, seen),
            Ty::Arr(a) | Ty::Opt(a) => self.occurs(v, &a, seen),
            Ty::Rec(c) => {
                let c = self.find_cell(c);
                if !seen.insert(c) {
                    return false;
                }
                match &self.cells[c as usize] {
                    Cell::Closed(fs) => fs.iter().any(|(_, t)| self.occurs(v, t, seen)),
                    Cell::Open(fs) => fs.values().any(|t| self.occurs(v, t, seen)),
                    Cell::Link(_) => unreachable!(),
                }
            }
        }
    }
    /// does cell `c` occur strictly inside itself (infinite record type)?
    fn cell_occurs(&self, c: u32, t: &Ty, seen: &mut BTreeSet<u32>) -> bool {
        match self.resolve(t) {
            Ty::Var(_) | Ty::Int | Ty::Str | Ty::Float | Ty::Bool => false,
            Ty::Fun(a, b) => self.cell_occurs(c, &a, seen) || self.cell_occurs(c, &b, seen),
            Ty::Arr(a) | Ty::Opt(a) => self.cell_occurs(c, &a, seen),
            Ty::Rec(d) => {
                let d = self.find_cell(d);
                if d == c {
                    return true;
                }
                if !seen.insert(d) {
                    return false;
                }
                match &self.cells[d as usize] {
                    Cell::Closed(fs) => fs.iter().any(|(_, t)| self.cell_occurs(c, t, seen)),
                    Cell::Open(fs) => fs.values().any(|t| self.cell_occurs(c, t, seen)),
                    Cell::Link(_) => unreachable!(),
                }
            }
        }
    }
    fn unify(&mut self, a: &Ty, b: &Ty) -> R<()> {
        self.steps += 1;
        if self.steps > 200_000 {
            return Err("model-step-limit".into());
        }
        let (a, b) = (self.resolve(a), self.resolve(b));
        match (&a, &b) {
            (Ty::Var(x), Ty::Var(y)) if x == y => Ok(()),
            (Ty::Var(x), t) | (t, Ty::Var(x)) => {
                if self.occurs(*x, t, &mut BTreeSet::new()) {
                    return Err("occurs".into());
                }
                self.sub.insert(*x, t.clone());
                Ok(())
            }
            (Ty::Int, Ty::Int) | (Ty::Str, Ty::Str) | (Ty::Float, Ty::Float) | (Ty::Bool, Ty::Bool) => Ok(()),
            (Ty::Fun(a1, b1), Ty::Fun(a2, b2)) => {
                self.unify(a1, a2)?;
                self.unify(b1, b2)
            }
            (Ty::Arr(x), Ty::Arr(y)) | (Ty::Opt(x), Ty::Opt(y)) => self.unify(x, y),
            (Ty::Rec(c1), Ty::Rec(c2)) => self.unify_cells(*c1, *c2),
            _ => Err("mismatch".into()),
        }
    }
    fn unify_cells(&mut self, c1: u32, c2: u32) -> R<()> {
        let (c1, c2) = (self.find_cell(c1), self.find_cell(c2));
        if c1 == c2 {
            return Ok(());
        }
        let (a, b) = (self.cells[c1 as usize].clone(), self.cells[c2 as usize].clone());
        match (a, b) {
            (Cell::Closed(f1), Cell::Closed(f2)) => {
                if f1.len() != f2.len() || f1.iter().zip(f2.iter()).any(|(x, y)| x.0 != y.0) {
                    return Err("record-fields".into());
                }
                self.cells[c1 as usize] = Cell::Link(c2);
                for (x, y) in f1.iter().zip(f2.iter()) {
                    self.unify(&x.1, &y.1)?;
                }
            }
            (Cell::Open(o), Cell::Closed(c)) | (Cell::Closed(c), Cell::Open(o)) => {
                let (open_id, closed_id) = if matches!(self.cells[c1 as usize], Cell::Open(_)) { (c1, c2) } else { (c2, c1) };
                for (n, _) in &o {
                    if !c.iter().any(|(m, _)| m == n) {
                        return Err("missing-field".into());
                    }
                }
                self.cells[open_id as usize] = Cell::Link(closed_id);
                for (n, t) in &o {
                    let other = c.iter().find(|(m, _)| m == n).unwrap().1.clone();
                    self.unify(t, &other)?;
                }
                // the closed record must not contain itself through the merged fields
                let fields: Vec<Ty> = c.iter().map(|f| f.1.clone()).collect();
                for t in &fields {
                    if self.cell_occurs(closed_id, t, &mut BTreeSet::new()) {
                        return Err("occurs".into());
                    }
                }
            }
            (Cell::Open(o1), Cell::Open(o2)) => {
                let mut merged = o2.clone();
                for (n, t) in &o1 {
                    merged.entry(n.clone()).or_insert_with(|| t.clone());
                }
                self.cells[c2 as usize] = Cell::Open(merged.clone());
                self.cells[c1 as usize] = Cell::Link(c2);
                for (n, t) in &o1 {
                    if let Some(u) = o2.get(n) {
                        self.unify(t, u)?;
                    }
                }
                for t in merged.values() {
                    if self.cell_occurs(c2, t, &mut BTreeSet::new()) {
                        return Err("occurs".into());
                    }
                }
            }
            _ => unreachable!(),
        }
        Ok(())
    }
    fn free(&self, t: &Ty, vars: &mut BTreeSet<u32>, cells: &mut BTreeSet<u32>) {
        match self.resolve(t) {
            Ty::Var(v) => {
                vars.insert(v);
            }
            Ty::Int | Ty::Str | Ty::Float | Ty::Bool => {}
            Ty::Fun(a, b) => {
                self.free(&a, vars, cells);
                self.free(&b, vars, cells);
            }
            Ty::Arr(a) | Ty::Opt(a) => self.free(&a, vars, cells),
            Ty::Rec(c) => {
                let c = self.find_cell(c);
                if cells.insert(c) {
                    match &self.cells[c as usize] {
                        Cell::Closed(fs) => fs.iter().for_each(|(_, t)| self.free(t, vars, cells)),
                        Cell::Open(fs) => fs.values().for_each(|t| self.free(t, vars, cells)),
                        Cell::Link(_) => unreachable!(),
                    }
                }
            }
        }
    }
    fn generalize(&self, env: &[(String, Scheme)], t: &Ty) -> Scheme {
        let (mut ev, mut ec) = (BTreeSet::new(), BTreeSet::new());
        for (_, s) in env {
            let (mut v, mut c) = (BTreeSet::new(), BTreeSet::new());
            self.free(&s.ty, &mut v, &mut c);
            for x in v {
                if !s.vars.contains(&x) {
                    ev.insert(x);
                }
            }
            for x in c {
                if !s.cells.contains(&x) {
                    ec.insert(x);
                }
            }
        }
        let (mut v, mut c) = (BTreeSet::new(), BTreeSet::new());
        self.free(t, &mut v, &mut c);
        Scheme { vars: v.difference(&ev).cloned().collect(), cells: c.difference(&ec).cloned().collect(), ty: t.clone() }
    }
    fn instantiate(&mut self, s: &Scheme) -> Ty {
        let mut vm: BTreeMap<u32, Ty> = BTreeMap::new();
        for v in &s.vars {
            let f = self.fresh();
            vm.insert(*v, f);
        }
        let mut cm: BTreeMap<u32, u32> = BTreeMap::new();
        let gen_cells: BTreeSet<u32> = s.cells.iter().map(|c| self.find_cell(*c)).collect();
        self.copy(&s.ty, &vm, &gen_cells, &mut cm)
    }
    fn copy(&mut self, t: &Ty, vm: &BTreeMap<u32, Ty>, gen_cells: &BTreeSet<u32>, cm: &mut BTreeMap<u32, u32>) -> Ty {
        match self.resolve(t) {
            Ty::Var(v) => vm.get(&v).cloned().unwrap_or(Ty::Var(v)),
            Ty::Fun(a, b) => Ty::Fun(Box::new(self.copy(&a, vm, gen_cells, cm)), Box::new(self.copy(&b, vm, gen_cells, cm))),
            Ty::Arr(a) => Ty::Arr(Box::new(self.copy(&a, vm, gen_cells, cm))),
            Ty::Opt(a) => Ty::Opt(Box::new(self.copy(&a, vm, gen_cells, cm))),
            Ty::Rec(c) => {
                let c = self.find_cell(c);
                if !gen_cells.contains(&c) {
                    return Ty::Rec(c);
                }
                if let Some(n) = cm.get(&c) {
                    return Ty::Rec(*n);
                }
                let placeholder = self.new_cell(Cell::Open(BTreeMap::new()));
                cm.insert(c, placeholder);
                let copied = match self.cells[c as usize].clone() {
                    Cell::Closed(fs) => Cell::Closed(fs.iter().map(|(n, t)| (n.clone(), self.copy(t, vm, gen_cells, cm))).collect()),
                    Cell::Open(fs) => Cell::Open(fs.iter().map(|(n, t)| (n.clone(), self.copy(t, vm, gen_cells, cm))).collect()),
                    Cell::Link(_) => unreachable!(),
                };
                self.cells[placeholder as usize] = copied;
                Ty::Rec(placeholder)
            }
            t => t,
        }
    }
    fn infer(&mut self, env: &mut Vec<(String, Scheme)>, t: &Tm) -> R<Ty> {
        self.steps += 1;
        if self.steps > 200_000 {
            return Err("model-step-limit".into());
        }
        use Tm::*;
        Ok(match t {
            Var(x) => {
                let s = env.iter().rev().find(|(n, _)| n == x).map(|(_, s)| s.clone()).ok_or_else(|| "unbound".to_string())?;
                self.instantiate(&s)
            }
            Lam(x, b) => {
                let a = self.fresh();
                env.push((x.clone(), Scheme { vars: vec![], cells: vec![], ty: a.clone() }));
                let r = self.infer(env, b);
                env.pop();
                Ty::Fun(Box::new(a), Box::new(r?))
            }
            App(f, a) => {
                let tf = self.infer(env, f)?;
                let ta = self.infer(env, a)?;
                let r = self.fresh();
                self.unify(&tf, &Ty::Fun(Box::new(ta), Box::new(r.clone())))?;
                r
            }
            Let(x, a, b) => {
                let ta = self.infer(env, a)?;
                let s = self.generalize(env, &ta);
                env.push((x.clone(), s));
                let r = self.infer(env, b);
                env.pop();
                r?
            }
            Int(_) => Ty::Int,
            Str(_) => Ty::Str,
            Float(_) => Ty::Float,
            Add(a, b) => {
                let ta = self.infer(env, a)?;
                self.unify(&ta, &Ty::Int)?;
                let tb = self.infer(env, b)?;
                self.unify(&tb, &Ty::Int)?;
                Ty::Int
            }
            Lt(a, b) => {
                let ta = self.infer(env, a)?;
                self.unify(&ta, &Ty::Int)?;
                let tb = self.infer(env, b)?;
                self.unify(&tb, &Ty::Int)?;
                Ty::Bool
            }
            If(c, a, b) => {
                let tc = self.infer(env, c)?;
                self.unify(&tc, &Ty::Bool)?;
                let ta = self.infer(env, a)?;
                let tb = self.infer(env, b)?;
                self.unify(&ta, &tb)?;
                ta
            }
            Rec(fs) => {
                let mut out = Vec::new();
                for (n, t) in fs {
                    out.push((n.clone(), self.infer(env, t)?));
                }
                Ty::Rec(self.new_cell(Cell::Closed(out)))
            }
            Proj(t, f) => {
                let tt = self.infer(env, t)?;
                let r = self.fresh();
                let mut m = BTreeMap::new();
                m.insert(f.clone(), r.clone());
                let c = self.new_cell(Cell::Open(m));
                self.unify(&tt, &Ty::Rec(c))?;
                r
            }
            Tup(xs) => {
                let mut out = Vec::new();
                for (i, t) in xs.iter().enumerate() {
                    out.push((format!("_{}", i), self.infer(env, t)?));
                }
                Ty::Rec(self.new_cell(Cell::Closed(out)))
            }
            Arr(xs) => {
                let e = self.fresh();
                for t in xs {
                    let tt = self.infer(env, t)?;
                    self.unify(&e, &tt)?;
                }
                Ty::Arr(Box::new(e))
            }
            No => Ty::Opt(Box::new(self.fresh())),
            Yes(t) => Ty::Opt(Box::new(self.infer(env, t)?)),
            MatchOpt(s, a, x, b) => {
                let ts = self.infer(env, s)?;
                let e = self.fresh();
                self.unify(&ts, &Ty::Opt(Box::new(e.clone())))?;
                let ta = self.infer(env, a)?;
                env.push((x.clone(), Scheme { vars: vec![], cells: vec![], ty: e }));
                let tb = self.infer(env, b);
                env.pop();
                let tb = tb?;
                self.unify(&ta, &tb)?;
                ta
            }
        })
    }
    /// canonical text: variables numbered by first occurrence, open-row fields sorted
    fn canon(&self, t: &Ty, names: &mut BTreeMap<u32, usize>, rows: &mut BTreeMap<u32, usize>, out: &mut String) {
        match self.resolve(t) {
            Ty::Var(v) => {
                let n = names.len();
                out.push_str(&format!("t{}", names.entry(v).or_insert(n)));
            }
            Ty::Int => out.push_str("Int"),
            Ty::Str => out.push_str("String"),
            Ty::Float => out.push_str("Float"),
            Ty::Bool => out.push_str("Bool"),
            Ty::Fun(a, b) => {
                out.push('(');
                self.canon(&a, names, rows, out);
                out.push_str(" -> ");
                self.canon(&b, names, rows, out);
                out.push(')');
            }
            Ty::Arr(a) => {
                out.push_str("(Array ");
                self.canon(&a, names, rows, out);
                out.push(')');
            }
            Ty::Opt(a) => {
                out.push_str("(Opt ");
                self.canon(&a, names, rows, out);
                out.push(')');
            }
            Ty::Rec(c) => {
                let c = self.find_cell(c);
                match &self.cells[c as usize] {
                    Cell::Closed(fs) => {
                        out.push('{');
                        for (n, t) in fs {
                            out.push_str(n);
                            out.push(':');
                            self.canon(t, names, rows, out);
                            out.push(',');
                        }
                        out.push('}');
                    }
                    Cell::Open(fs) => {
                        out.push('{');
                        for (n, t) in fs {
                            out.push_str(n);
                            out.push(':');
                            self.canon(t, names, rows, out);
                            out.push(',');
                        }
                        let n = rows.len();
                        out.push_str(&format!("|r{}}}", rows.entry(c).or_insert(n)));
                    }
                    Cell::Link(_) => unreachable!(),
                }
            }
        }
    }
}

/// W's verdict: Ok(canonical type) | Err(reason)
pub fn w_type(t: &Tm) -> Result<String, String> {
    let mut inf = Infer::new();
    let ty = inf.infer(&mut Vec::new(), t)?;
    let mut out = String::new();
    inf.canon(&ty, &mut BTreeMap::new(), &mut BTreeMap::new(), &mut out);
    Ok(out)
}

// ---------------------------------------------------------------------------------------------
// reading gluon's type text

#[derive(Clone, Debug, PartialEq)]
enum Tok {
    Id(String),
    Arrow,
    LP,
    RP,
    LB,
    RB,
    Comma,
    Colon,
    Bar,
    Dot,
    LSq,
    RSq,
}

fn lex_type(s: &str) -> Result<Vec<Tok>, String> {
    let cs: Vec<char> = s.chars().collect();
    let mut i = 0;
    let mut out = Vec::new();
    while i < cs.len() {
        let c = cs[i];
        if c.is_whitespace() {
            i += 1;
        } else if c == '-' && cs.get(i + 1) == Some(&'>') {
            out.push(Tok::Arrow);
            i += 2;
        } else if c.is_alphanumeric() || c == '_' {
            let st = i;
            while i < cs.len() && (cs[i].is_alphanumeric() || cs[i] == '_' || (cs[i] == '.' && cs.get(i + 1).map_or(false, |d| d.is_alphanumeric() || *d == '_'))) {
                i += 1;
            }
            out.push(Tok::Id(cs[st..i].iter().collect()));
        } else {
            out.push(match c {
                '(' => Tok::LP,
                ')' => Tok::RP,
                '{' => Tok::LB,
                '}' => Tok::RB,
                ',' => Tok::Comma,
                ':' => Tok::Colon,
                '|' => Tok::Bar,
                '.' => Tok::Dot,
                '[' => Tok::LSq,
                ']' => Tok::RSq,
                _ => return Err(format!("unexpected `{}` in type text", c)),
            });
            i += 1;
        }
    }
    Ok(out)
}

/// Parsed gluon type, canonicalised directly into the same text form as `Infer::canon`
struct TP {
    toks: Vec<Tok>,
    pos: usize,
    names: BTreeMap<String, usize>,
    rows: BTreeMap<String, usize>,
    next_name: usize,
    next_row: usize,
}

impl TP {
    fn peek(&self) -> Option<&Tok> {
        self.toks.get(self.pos)
    }
    fn eat(&mut self, t: &Tok) -> bool {
        if self.peek() == Some(t) {
            self.pos += 1;
            true
        } else {
            false
        }
    }
    fn ty(&mut self) -> Result<String, String> {
        // forall a b . T
        if self.peek() == Some(&Tok::Id("forall".into())) {
            self.pos += 1;
            // the bound names shadow outer ones for the extent of the body
            let mut saved: Vec<(String, Option<usize>, Option<usize>)> = Vec::new();
            while let Some(Tok::Id(n)) = self.peek().cloned() {
                self.pos += 1;
                saved.push((n.clone(), self.names.remove(&n), self.rows.remove(&n)));
            }
            if !self.eat(&Tok::Dot) {
                return Err("expected `.` after forall".into());
            }
            let body = self.ty();
            for (n, a, b) in saved {
                self.names.remove(&n);
                self.rows.remove(&n);
                if let Some(a) = a {
                    self.names.insert(n.clone(), a);
                }
                if let Some(b) = b {
                    self.rows.insert(n, b);
                }
            }
            return body;
        }
        if self.peek() == Some(&Tok::LSq) {
            return Err("implicit argument in type".into());
        }
        let lhs = self.app()?;
        if self.eat(&Tok::Arrow) {
            let rhs = self.ty()?;
            return Ok(format!("({} -> {})", lhs, rhs));
        }
        Ok(lhs)
    }
    fn app(&mut self) -> Result<String, String> {
        let head = self.atom()?;
        let mut args = Vec::new();
        while matches!(self.peek(), Some(Tok::Id(_)) | Some(Tok::LP) | Some(Tok::LB)) {
            if self.peek() == Some(&Tok::Id("forall".into())) {
                break;
            }
            args.push(self.atom()?);
        }
        if args.is_empty() {
            Ok(head)
        } else {
            Ok(format!("({} {})", head, args.join(" ")))
        }
    }
    fn atom(&mut self) -> Result<String, String> {
        match self.peek().cloned() {
            Some(Tok::Id(n)) => {
                self.pos += 1;
                let last = n.rsplit('.').next().unwrap_or(&n).to_string();
                Ok(match last.as_str() {
                    "Int" | "String" | "Float" | "Bool" | "Array" | "Opt" => last,
                    _ if last.chars().next().map_or(false, |c| c.is_lowercase()) && !n.contains('.') => {
                        if !self.names.contains_key(&n) {
                            self.next_name += 1;
                            self.names.insert(n.clone(), self.next_name - 1);
                        }
                        format!("t{}", self.names[&n])
                    }
                    _ => return Err(format!("unknown type name `{}`", n)),
                })
            }
            Some(Tok::LP) => {
                self.pos += 1;
                if self.eat(&Tok::RP) {
                    return Ok("{}".into());
                }
                let first = self.ty()?;
                if self.eat(&Tok::Comma) {
                    let mut items = vec![first];
                    loop {
                        items.push(self.ty()?);
                        if !self.eat(&Tok::Comma) {
                            break;
                        }
                    }
                    if !self.eat(&Tok::RP) {
                        return Err("expected `)`".into());
                    }
                    let mut s = String::from("{");
                    for (i, t) in items.iter().enumerate() {
                        s.push_str(&format!("_{}:{},", i, t));
                    }
                    s.push('}');
                    return Ok(s);
                }
                if !self.eat(&Tok::RP) {
                    return Err("expected `)`".into());
                }
                Ok(first)
            }
            Some(Tok::LB) => {
                self.pos += 1;
                let mut fields: Vec<(String, String)> = Vec::new();
                let mut tail: Option<String> = None;
                loop {
                    match self.peek().cloned() {
                        Some(Tok::RB) => {
                            self.pos += 1;
                            break;
                        }
                        Some(Tok::Bar) => {
                            self.pos += 1;
                            match self.peek().cloned() {
                                Some(Tok::Id(r)) => {
                                    self.pos += 1;
                                    tail = Some(r);
                                }
                                _ => return Err("expected row variable".into()),
                            }
                        }
                        Some(Tok::Id(n)) => {
                            self.pos += 1;
                            if !self.eat(&Tok::Colon) {
                                return Err("expected `:`".into());
                            }
                            // field types are delayed: variable numbering must follow the
                            // order of the canonical form (open rows sorted by field name)
                            let start = self.pos;
                            let mut depth = 0i32;
                            while let Some(t) = self.peek() {
                                match t {
                                    Tok::LP | Tok::LB | Tok::LSq => depth += 1,
                                    Tok::RP | Tok::RSq => depth -= 1,
                                    Tok::RB => {
                                        if depth == 0 {
                                            break;
                                        }
                                        depth -= 1;
                                    }
                                    Tok::Comma | Tok::Bar if depth == 0 => break,
                                    _ => {}
                                }
                                self.pos += 1;
                            }
                            fields.push((n, format!("{}..{}", start, self.pos)));
                            self.eat(&Tok::Comma);
                        }
                        other => return Err(format!("unexpected {:?} in record type", other)),
                    }
                }
                if tail.is_some() {
                    fields.sort_by(|a, b| a.0.cmp(&b.0));
                }
                let mut s = String::from("{");
                let resume = self.pos;
                for (n, range) in &fields {
                    let (a, b) = range.split_once("..").unwrap();
                    let (a, b): (usize, usize) = (a.parse().unwrap(), b.parse().unwrap());
                    let saved = std::mem::replace(&mut self.toks, Vec::new());
                    let sub: Vec<Tok> = saved[a..b].to_vec();
                    self.toks = sub;
                    self.pos = 0;
                    let t = self.ty();
                    let done = self.pos == self.toks.len();
                    self.toks = saved;
                    let t = t?;
                    if !done {
                        return Err("trailing tokens in field type".into());
                    }
                    s.push_str(&format!("{}:{},", n, t));
                }
                self.pos = resume;
                if let Some(r) = tail {
                    if !self.rows.contains_key(&r) {
                        self.next_row += 1;
                        self.rows.insert(r.clone(), self.next_row - 1);
                    }
                    s.push_str(&format!("|r{}", self.rows[&r]));
                }
                s.push('}');
                Ok(s)
            }
            other => Err(format!("unexpected {:?} in type", other)),
        }
    }
}

/// canonical text of a gluon type rendering
pub fn read_gluon_type(text: &str) -> Result<String, String> {
    let toks = lex_type(text)?;
    let mut p = TP { toks, pos: 0, names: BTreeMap::new(), rows: BTreeMap::new(), next_name: 0, next_row: 0 };
    let t = p.ty()?;
    if p.pos != p.toks.len() {
        return Err(format!("trailing tokens in `{}`", text));
    }
    Ok(t)
}

// ---------------------------------------------------------------------------------------------
// generator

const VARS: &[&str] = &["x", "y", "z", "f", "g", "r"];
const FIELDS: &[&str] = &["a", "b", "c"];

fn gen_tm(rng: &mut Rng, depth: u32, scope: &mut Vec<String>) -> Tm {
    use Tm::*;
    if depth == 0 || rng.chance(1, 6) {
        if !scope.is_empty() && rng.chance(3, 5) {
            return Var(scope[rng.below(scope.len())].clone());
        }
        return match rng.below(6) {
            0 | 1 => Int(rng.below(10) as i64),
            2 => Str("s".into()),
            3 => No,
            4 => Float(1),
            _ => Rec(vec![]),
        };
    }
    let d = depth - 1;
    match rng.below(20) {
        0 | 1 | 2 => {
            let x = VARS[rng.below(VARS.len())].to_string();
            scope.push(x.clone());
            let b = gen_tm(rng, d, scope);
            scope.pop();
            Lam(x, Box::new(b))
        }
        3 | 4 | 5 => App(Box::new(gen_tm(rng, d, scope)), Box::new(gen_tm(rng, d, scope))),
        6 | 7 | 8 => {
            let x = VARS[rng.below(VARS.len())].to_string();
            let a = gen_tm(rng, d, scope);
            scope.push(x.clone());
            let b = gen_tm(rng, d, scope);
            scope.pop();
            Let(x, Box::new(a), Box::new(b))
        }
        9 => Add(Box::new(gen_tm(rng, d, scope)), Box::new(gen_tm(rng, d, scope))),
        10 => If(Box::new(Lt(Box::new(gen_tm(rng, d.min(1), scope)), Box::new(gen_tm(rng, d.min(1), scope)))), Box::new(gen_tm(rng, d, scope)), Box::new(gen_tm(rng, d, scope))),
        11 | 12 => {
            let n = 1 + rng.below(3);
            let mut names: Vec<&str> = FIELDS.to_vec();
            rng.shuffle(&mut names);
            Rec(names[..n].iter().map(|f| (f.to_string(), gen_tm(rng, d, scope))).collect())
        }
        13 | 14 => Proj(Box::new(gen_tm(rng, d, scope)), FIELDS[rng.below(FIELDS.len())].to_string()),
        15 => Tup(vec![gen_tm(rng, d, scope), gen_tm(rng, d, scope)]),
        16 => {
            let n = rng.below(3);
            Arr((0..n).map(|_| gen_tm(rng, d, scope)).collect())
        }
        17 => Yes(Box::new(gen_tm(rng, d, scope))),
        18 => {
            let s = gen_tm(rng, d, scope);
            let a = gen_tm(rng, d, scope);
            let x = VARS[rng.below(VARS.len())].to_string();
            scope.push(x.clone());
            let b = gen_tm(rng, d, scope);
            scope.pop();
            MatchOpt(Box::new(s), Box::new(a), x, Box::new(b))
        }
        _ => Proj(Box::new(Var(scope.get(0).cloned().unwrap_or("x".into()))), FIELDS[rng.below(FIELDS.len())].to_string()),
    }
}

/// Hindley-Milner stress idioms with random sub-terms plugged in: polymorphic lambdas as branch
/// results in every kind of context, let-bound functions used at two types, generalisation under
/// a lambda whose parameter is (or is not) involved, row-polymorphic functions at two records
fn gen_idiom(rng: &mut Rng) -> Tm {
    use Tm::*;
    let bx = |t: Tm| Box::new(t);
    let v = |n: &str| Var(n.to_string());
    let small = |rng: &mut Rng, scope: &[&str]| {
        let mut sc: Vec<String> = scope.iter().map(|s| s.to_string()).collect();
        gen_tm(rng, 1, &mut sc)
    };
    let poly_lam = |rng: &mut Rng, p: &str| match rng.below(4) {
        0 => Lam(p.into(), bx(v(p))),
        1 => Lam(p.into(), bx(Tup(vec![v(p), v(p)]))),
        2 => Lam(p.into(), bx(Add(bx(v(p)), bx(Int(1))))),
        _ => Lam(p.into(), bx(Lam("q".into(), bx(v(p))))),
    };
    let branchy = |rng: &mut Rng| -> Tm {
        let a = poly_lam(rng, "y");
        let b = poly_lam(rng, "z");
        if rng.chance(1, 2) {
            MatchOpt(bx(if rng.chance(1, 2) { No } else { Yes(bx(Int(1))) }), bx(a), "w".into(), bx(b))
        } else {
            If(bx(Lt(bx(Int(1)), bx(Int(2)))), bx(a), bx(b))
        }
    };
    match rng.below(9) {
        0 => branchy(rng),
        1 => Tup(vec![branchy(rng), small(rng, &[])]),
        2 => App(bx(branchy(rng)), bx(small(rng, &[]))),
        3 => Let("f".into(), bx(branchy(rng)), bx(Tup(vec![App(bx(v("f")), bx(Int(1))), App(bx(v("f")), bx(Str("s".into())))]))),
        4 => {
            // let-polymorphism at two types
            let body = poly_lam(rng, "x");
            Let("id".into(), bx(body), bx(Tup(vec![App(bx(v("id")), bx(Int(1))), App(bx(v("id")), bx(small(rng, &[])))])))
        }
        5 => {
            // generalisation under a lambda: the let-bound function may or may not mention x
            let inner = match rng.below(4) {
                0 => Tup(vec![v("x"), v("y")]),
                1 => Let("u".into(), bx(Arr(vec![v("y"), v("z")])), bx(App(bx(v("x")), bx(Tup(vec![v("z"), v("z")]))))),
                2 => Let("u".into(), bx(Arr(vec![v("y"), v("x")])), bx(v("z"))),
                _ => App(bx(v("x")), bx(v("y"))),
            };
            let g = Lam("y".into(), bx(Lam("z".into(), bx(inner))));
            Lam("x".into(), bx(Let("g".into(), bx(g), bx(Tup(vec![App(bx(App(bx(v("g")), bx(Int(1)))), bx(Int(2))), App(bx(App(bx(v("g")), bx(Str("a".into())))), bx(Str("b".into())))])))))
        }
        6 => {
            // row-polymorphic access at two record shapes
            let f = Lam("r".into(), bx(Tup(vec![Proj(bx(v("r")), "a".into()), Proj(bx(v("r")), "b".into())])));
            Let("f".into(), bx(f), bx(Tup(vec![
                App(bx(v("f")), bx(Rec(vec![("a".into(), Int(1)), ("b".into(), Str("s".into()))]))),
                App(bx(v("f")), bx(Rec(vec![("b".into(), small(rng, &[])), ("c".into(), Int(0)), ("a".into(), Float(1))]))),
            ])))
        }
        7 => {
            // a lambda-bound record used at two row shapes must be rejected; a let-bound one not
            let use2 = Tup(vec![Proj(bx(v("r")), "a".into()), App(bx(Proj(bx(v("r")), "b".into())), bx(Int(1)))]);
            if rng.chance(1, 2) {
                Lam("r".into(), bx(use2))
            } else {
                Let("r".into(), bx(Rec(vec![("a".into(), small(rng, &[])), ("b".into(), poly_lam(rng, "k"))])), bx(use2))
            }
        }
        _ => {
            // nested lets with shadowing
            let a = poly_lam(rng, "x");
            Let("f".into(), bx(a), bx(Let("f".into(), bx(App(bx(v("f")), bx(v("f")))), bx(Tup(vec![App(bx(v("f")), bx(Int(3))), v("f")])))))
        }
    }
}

fn rename(t: &Tm, env: &mut Vec<(String, String)>, k: &mut u32) -> Tm {
    use Tm::*;
    let fresh = |k: &mut u32| {
        *k += 1;
        format!("v{}", *k)
    };
    match t {
        Var(x) => Var(env.iter().rev().find(|(o, _)| o == x).map(|(_, n)| n.clone()).unwrap_or(x.clone())),
        Lam(x, b) => {
            let n = fresh(k);
            env.push((x.clone(), n.clone()));
            let b = rename(b, env, k);
            env.pop();
            Lam(n, Box::new(b))
        }
        App(a, b) => App(Box::new(rename(a, env, k)), Box::new(rename(b, env, k))),
        Let(x, a, b) => {
            let a = rename(a, env, k);
            let n = fresh(k);
            env.push((x.clone(), n.clone()));
            let b = rename(b, env, k);
            env.pop();
            Let(n, Box::new(a), Box::new(b))
        }
        Int(_) | Str(_) | Float(_) | No => t.clone(),
        Add(a, b) => Add(Box::new(rename(a, env, k)), Box::new(rename(b, env, k))),
        Lt(a, b) => Lt(Box::new(rename(a, env, k)), Box::new(rename(b, env, k))),
        If(c, a, b) => If(Box::new(rename(c, env, k)), Box::new(rename(a, env, k)), Box::new(rename(b, env, k))),
        Rec(fs) => Rec(fs.iter().map(|(n, t)| (n.clone(), rename(t, env, k))).collect()),
        Proj(t, f) => Proj(Box::new(rename(t, env, k)), f.clone()),
        Tup(xs) => Tup(xs.iter().map(|t| rename(t, env, k)).collect()),
        Arr(xs) => Arr(xs.iter().map(|t| rename(t, env, k)).collect()),
        Yes(t) => Yes(Box::new(rename(t, env, k))),
        MatchOpt(s, a, x, b) => {
            let s = rename(s, env, k);
            let a = rename(a, env, k);
            let n = fresh(k);
            env.push((x.clone(), n.clone()));
            let b = rename(b, env, k);
            env.pop();
            MatchOpt(Box::new(s), Box::new(a), n, Box::new(b))
        }
    }
}

// ---------------------------------------------------------------------------------------------

struct W {
    small: bool,
    vm: Option<gluon::RootedThread>,
    uses: u32,
}

enum Gl {
    Accepted(String),
    Rejected(String),
    Panicked(String),
}

impl W {
    fn check(&mut self, name: &str, src: &str) -> Gl {
        if self.vm.is_none() || self.uses > 120 {
            self.vm = Some(vm_with(Settings::PLAIN));
            self.uses = 0;
        }
        self.uses += 1;
        let vm = self.vm.as_ref().unwrap().clone();
        match crate::worker::guarded(|| vm.typecheck_str(name, src, None).map(|(_, t)| t.to_string()).map_err(|e| e.to_string())) {
            Ok(Ok(t)) => Gl::Accepted(t),
            Ok(Err(e)) => Gl::Rejected(e.lines().next().unwrap_or("").to_string()),
            Err((loc, msg)) => {
                self.vm = None;
                Gl::Panicked(format!("{}: {}", crate::worker::strip_repo(&loc), msg.lines().next().unwrap_or("")))
            }
        }
    }
}

impl Worker for W {
    fn gen(&mut self, rng: &mut Rng, _idx: u64) -> Option<Value> {
        let depth = if self.small { 1 + rng.below(2) as u32 } else { 2 + rng.below(4) as u32 };
        let t = if !self.small && rng.chance(1, 12) { gen_idiom(rng) } else { gen_tm(rng, depth, &mut Vec::new()) };
        if t.size() > 60 {
            return None;
        }
        let verdict = match w_type(&t) {
            Ok(_) => "typable".to_string(),
            Err(e) => e,
        };
        Some(json!({"term": serde_json::to_value(&t).unwrap(), "text": print_tm(&t), "key": {"model_verdict": verdict}}))
    }

    fn run(&mut self, case: &Value) -> CaseResult {
        let t: Tm = match serde_json::from_value(case["term"].clone()) {
            Ok(t) => t,
            Err(e) => return CaseResult::inconclusive(0, format!("bad case: {}", e)),
        };
        crate::worker::note_key(&case["key"]);
        let text = print_tm(&t);
        let h = hash_str(&text);
        let src = program(&t);
        let name = format!("c03_{:x}", h);
        let w = w_type(&t);
        if let Err(e) = &w {
            if e == "model-step-limit" {
                return CaseResult::inconclusive(h, "model step limit");
            }
        }
        let g = self.check(&name, &src);
        let mut r = CaseResult::ok(h, t.size() >= 6 && t.uses_let_or_record());
        r.stat("terms", 1);
        let viol = |kind: &str, msg: String| CaseResult::violation(h, format!("{}\nterm: {}", msg, text), json!({"kind": kind}));
        let gt = match (&w, &g) {
            (_, Gl::Panicked(p)) => {
                let mut v = viol("checker-panicked", format!("the checker panicked at {}", p));
                v.sig["location"] = json!(p.split(':').take(2).collect::<Vec<_>>().join(":"));
                return v;
            }
            (Ok(wt), Gl::Rejected(e)) => {
                let mut v = viol("typable-term-rejected", format!("W types the term as `{}` but the checker rejects it: {}", wt, e));
                v.sig["error"] = json!(error_class(e));
                // the principal type has a type variable inside a record / tuple (a field holding a
                // polymorphic value such as `No` or `[]`)
                let mut depth = 0;
                let mut poly_field = false;
                let b = wt.as_bytes();
                for i in 0..b.len() {
                    match b[i] {
                        b'{' => depth += 1,
                        b'}' => depth -= 1,
                        b't' if depth > 0 && i + 1 < b.len() && b[i + 1].is_ascii_digit() && (i == 0 || !b[i - 1].is_ascii_alphanumeric()) => poly_field = true,
                        _ => {}
                    }
                }
                v.sig["record_with_polymorphic_field"] = json!(poly_field);
                return v;
            }
            (Err(e), Gl::Accepted(gt)) => {
                let mut v = viol("untypable-term-accepted", format!("W finds the term untypable ({}) but the checker accepts it with type `{}`", e, gt));
                v.sig["model_reason"] = json!(e);
                v.sig["reported_type"] = json!(read_gluon_type(gt).unwrap_or_default());
                return v;
            }
            (Err(_), Gl::Rejected(_)) => {
                r.stat("untypable_terms_rejected_by_both", 1);
                return r;
            }
            (Ok(wt), Gl::Accepted(gt)) => {
                match read_gluon_type(gt) {
                    Ok(c) => {
                        if &c != wt {
                            // A record field or tuple component holding a polymorphic value keeps
                            // its own quantifier in gluon (`{ b : forall a . Opt a }`); two copies
                            // of such a type then have independent variables where HM shares one.
                            // That type is at least as general as W's: accepted (and counted) iff
                            // W's type is an instance of it by a variable-to-variable mapping and
                            // the reported type really has an inner quantifier.
                            let inner_forall = gt.trim_start().trim_start_matches("forall").contains("forall");
                            if inner_forall && instance_of(&c, wt) {
                                r.stat("more_general_than_hm_through_inner_quantifiers", 1);
                            } else {
                                return viol("type-differs-from-principal", format!("W's principal type is `{}`, the checker reports `{}` (canonical `{}`)", wt, gt, c));
                            }
                        }
                    }
                    Err(e) => return CaseResult::inconclusive(h, format!("type text `{}` not read: {}", gt, e)),
                }
                r.stat("typable_terms_with_equal_principal_type", 1);
                gt.clone()
            }
        };
        // ---- metamorphic variants
        let renamed = rename(&t, &mut Vec::new(), &mut 0);
        let variants: Vec<(&str, String)> = vec![
            ("alpha-renamed", program(&renamed)),
            ("unused-binding-added", format!("{}let unused_c03 = 0\n{}\n", PRE, text)),
            ("annotated-with-own-type", {
                let flat: String = gt.replace(&format!("{}.", name), "").split_whitespace().collect::<Vec<_>>().join(" ");
                let mut out = format!("let annotated_c03 : {} = ", flat);
                pr(&t, &mut out);
                format!("{}{}\nannotated_c03\n", PRE, out)
            }),
        ];
        let canon_g = read_gluon_type(&gt).unwrap_or_default();
        for (label, vsrc) in variants {
            // the module name is part of qualified type names: keep it
            let gv = self.check(&name, &vsrc);
            r.stat("metamorphic_variants_checked", 1);
            match gv {
                Gl::Accepted(t2) => match read_gluon_type(&t2) {
                    Ok(c2) if c2 == canon_g => {}
                    Ok(c2) => {
                        let mut v = viol("metamorphic-type-changed", format!("variant {}: the type changes from `{}` to `{}` (`{}`)", label, gt, t2, c2));
                        v.sig["variant"] = json!(label);
                        return v;
                    }
                    Err(e) => return CaseResult::inconclusive(h, format!("type text `{}` not read: {}", t2, e)),
                },
                Gl::Rejected(e) => {
                    let mut v = viol("metamorphic-acceptance-changed", format!("variant {} is rejected although the term is accepted with type `{}`: {}\nvariant program:\n{}", label, gt, e, vsrc));
                    v.sig["variant"] = json!(label);
                    v.sig["error"] = json!(error_class(&e));
                    // a quantifier below the top of the reported type (`{ b : forall a . Array a }`)
                    v.sig["inner_forall"] = json!(gt.trim_start().trim_start_matches("forall").contains("forall"));
                    return v;
                }
                Gl::Panicked(p) => {
                    let mut v = viol("checker-panicked", format!("variant {}: the checker panicked at {}", label, p));
                    v.sig["location"] = json!(p.split(':').take(2).collect::<Vec<_>>().join(":"));
                    return v;
                }
            }
        }
        r.feat(format!("size-{}", (t.size() / 5) * 5));
        r
    }
}

/// is `specific` obtained from `general` by mapping variables to variables (consistently)?
fn instance_of(general: &str, specific: &str) -> bool {
    fn toks(s: &str) -> Vec<String> {
        let cs: Vec<char> = s.chars().collect();
        let mut out = Vec::new();
        let mut i = 0;
        while i < cs.len() {
            if (cs[i] == 't' || cs[i] == 'r') && cs.get(i + 1).map_or(false, |c| c.is_ascii_digit()) && (i == 0 || !cs[i - 1].is_alphanumeric()) {
                let st = i;
                i += 1;
                while i < cs.len() && cs[i].is_ascii_digit() {
                    i += 1;
                }
                out.push(cs[st..i].iter().collect());
            } else {
                out.push(cs[i].to_string());
                i += 1;
            }
        }
        out
    }
    let (g, s) = (toks(general), toks(specific));
    if g.len() != s.len() {
        return false;
    }
    let mut map: BTreeMap<String, String> = BTreeMap::new();
    for (a, b) in g.iter().zip(s.iter()) {
        let var = a.len() > 1 && (a.starts_with('t') || a.starts_with('r'));
        if var {
            if b.len() < 2 || b.chars().next() != a.chars().next() {
                return false;
            }
            if let Some(prev) = map.insert(a.clone(), b.clone()) {
                if &prev != b {
                    return false;
                }
            }
        } else if a != b {
            return false;
        }
    }
    true
}

fn error_class(e: &str) -> String {
    let e = e.trim_start_matches("error: ");
    let mut out = String::new();
    for c in e.chars() {
        if c == '`' || c == '\'' || c == ':' || out.len() > 40 {
            break;
        }
        out.push(c);
    }
    out.trim().to_string()
}

pub fn dbg_main(args: &[String]) {
    let seed: u64 = args.get(0).and_then(|s| s.parse().ok()).unwrap_or(1);
    for i in 0..20 {
        let mut rng = Rng::for_case(seed, "C03/dbg", i);
        let t = gen_tm(&mut rng, 3, &mut Vec::new());
        println!("{}\n   W: {:?}", print_tm(&t), w_type(&t));
    }
}
