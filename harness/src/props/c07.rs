//! C07 — resource limits are enforced, tail calls run in constant stack, interrupts stop programs.
//! Monitors: hook counters H6 (allocated_memory vs memory_limit after every limit-checked
//! allocation) and H7 (value-stack length vs limit and vs the function's static bound at every
//! instruction / frame entry), outcome classes, worker death, call-step counter after interrupt.
use crate::prop::*;
use crate::rng::{hash_str, Rng};
use crate::vmutil::*;
use gluon::vm::thread::ThreadInternal;
use gluon::vm::verif;
use gluon::{RootedThread, Thread, ThreadExt};
use serde_json::{json, Value};
use std::sync::atomic::{AtomicBool, AtomicU64, Ordering};
use std::sync::Arc;

pub struct C07;

impl Prop for C07 {
    fn id(&self) -> &'static str {
        "C07"
    }
    fn rule(&self) -> &'static str {
        "allocation-heavy and recursion-heavy program families (tail / non-tail; direct, mutual, through closures, over-application, if/match/&&/|| tail positions, record-of-functions) x a sweep of memory limits (baseline + 0..1 MiB in header-sized steps) and stack limits (3..10^4 slots); deep recursion and deep data with default limits; tail families measured at n = 10, 10^3, 10^5; interrupts issued from another OS thread after a random number of observed call steps, a third of them while the program runs inside `io.catch` with a handler that would return or keep running; non-trivial = the limit was actually reached (error outcome) or the peak counters moved; distinct = (family, parameter, limit)"
    }
    fn assumptions(&self) -> Vec<String> {
        vec![
            "'promptly' is judged in VM call steps executed after interrupt() returned (<= 100), never in wall-clock time".into(),
            "allocations made through alloc_ignore_limit (error-message strings) are by design outside the limit and are not counted".into(),
            "the stack clause is read as: the value stack never holds more than S slots while the program runs".into(),
        ]
    }
    fn phases(&self, tier: Tier) -> Vec<Phase> {
        let mut v = vec![
            Phase::new("memory-limit", tier.pick(400, 40000)).min_cases(tier.pick(100, 8000)).timeouts(120, tier.pick(300, 1200)),
            Phase::new("stack-limit", tier.pick(400, 40000)).min_cases(tier.pick(100, 8000)).timeouts(120, tier.pick(300, 1200)),
            Phase::new("tail-constant", tier.pick(60, 1200)).min_cases(tier.pick(20, 300)).timeouts(300, tier.pick(300, 1200)),
            Phase::new("deep", tier.pick(24, 200)).min_cases(tier.pick(8, 60)).timeouts(300, tier.pick(300, 1200)),
            Phase::new("interrupt", tier.pick(96, 4000)).min_cases(tier.pick(30, 800)).timeouts(120, tier.pick(300, 1200)),
        ];
        if tier == Tier::Thorough {
            v.push(Phase::new("deep-release", 100).build(Build::Release).min_cases(30).timeouts(300, 1200));
        }
        v
    }
    fn worker(&self, ctx: &WorkerCtx) -> Box<dyn Worker> {
        Box::new(W { phase: ctx.phase.trim_end_matches("-release").to_string() })
    }
}

struct W {
    phase: String,
}

const PRE: &str = "let { Bool } = import! std.types\nlet array = import! std.array.prim\nlet string = import! std.string.prim\n";

fn memory_family(k: usize, n: usize) -> (&'static str, String) {
    match k % 5 {
        0 => ("garbage-arrays", format!("{}let mk n = [n, n #Int+ 1, n #Int+ 2, n #Int+ 3]\nrec let go n acc = if n #Int< 1 then acc else go (n #Int- 1) (mk n)\nin array.len (go {} (mk 0))\n", PRE, n)),
        1 => ("growing-list", format!("{}type L = | Nil | Cons Int L\nrec let build n acc = if n #Int< 1 then acc else build (n #Int- 1) (Cons n acc)\nin\nrec let len l acc =\n    match l with\n    | Nil -> acc\n    | Cons _ r -> len r (acc #Int+ 1)\nin len (build {} Nil) 0\n", PRE, n)),
        2 => ("string-append", format!("{}rec let go n acc = if n #Int< 1 then acc else go (n #Int- 1) (string.append acc \"abcdefgh\")\nin string.len (go {} \"\")\n", PRE, n)),
        3 => ("closures", format!("{}let add a b c = a #Int+ b #Int+ c\nrec let go n f = if n #Int< 1 then f 1 else go (n #Int- 1) (add n n)\nin go {} (add 0 0)\n", PRE, n)),
        _ => ("records-variants", format!("{}type T = | Leaf | Node {{ a : Int, b : T, c : (Int, String) }}\nrec let go n r = if n #Int< 1 then r else go (n #Int- 1) (Node {{ a = n, b = r, c = (n, \"s\") }})\nin\nmatch go {} Leaf with\n| Leaf -> 0\n| Node x -> x.a\n", PRE, n)),
    }
}

fn stack_family(k: usize, n: usize) -> (&'static str, String) {
    match k % 6 {
        0 => ("non-tail-direct", format!("{}rec let f n = if n #Int< 1 then 0 else 1 #Int+ f (n #Int- 1)\nin f {}\n", PRE, n)),
        1 => ("non-tail-mutual", format!("{}rec let ev n = if n #Int< 1 then 0 else 1 #Int+ od (n #Int- 1)\nlet od n = if n #Int< 1 then 1 else 2 #Int+ ev (n #Int- 1)\nin ev {}\n", PRE, n)),
        2 => ("non-tail-through-closure", format!("{}let call h n = h n\nrec let f n = if n #Int< 1 then 0 else 1 #Int+ call f (n #Int- 1)\nin f {}\n", PRE, n)),
        3 => ("non-tail-over-application", format!("{}rec let f n = \\k -> if n #Int< 1 then k else 1 #Int+ f (n #Int- 1) k\nin f {} 5\n", PRE, n)),
        4 => ("tail-direct", format!("{}rec let f n acc = if n #Int< 1 then acc else f (n #Int- 1) (acc #Int+ 1)\nin f {} 0\n", PRE, n)),
        _ => ("wide-frame", format!("{}rec let f n =\n    if n #Int< 1 then 0\n    else\n        let a = n #Int+ 1\n        let b = a #Int+ 1\n        let c = (a, b, n)\n        let d = {{ x = a, y = b, z = c }}\n        d.x #Int+ f (n #Int- 1)\nin f {}\n", PRE, n)),
    }
}

fn tail_family(k: usize) -> (&'static str, String) {
    // `{N}` is replaced by the iteration count
    match k % 9 {
        0 => ("tail-direct", format!("{}rec let f n acc = if n #Int< 1 then acc else f (n #Int- 1) (acc #Int+ 1)\nin f {{N}} 0\n", PRE)),
        1 => ("tail-mutual", format!("{}rec let ev n = if n #Int< 1 then 0 else od (n #Int- 1)\nlet od n = if n #Int< 1 then 1 else ev (n #Int- 1)\nin ev {{N}}\n", PRE)),
        2 => ("tail-in-match", format!("{}rec let f n acc =\n    match n with\n    | 0 -> acc\n    | _ -> f (n #Int- 1) (acc #Int+ 2)\nin f {{N}} 0\n", PRE)),
        3 => ("tail-in-and-or", format!("{}rec let f n = n #Int< 1 || (0 #Int< n && f (n #Int- 1))\nin f {{N}}\n", PRE)),
        4 => ("tail-through-closure", format!("{}let call h n acc = h n acc\nrec let f n acc = if n #Int< 1 then acc else call f (n #Int- 1) (acc #Int+ 1)\nin f {{N}} 0\n", PRE)),
        5 => ("tail-over-application", format!("{}rec let f n = \\acc -> if n #Int< 1 then acc else f (n #Int- 1) (acc #Int+ 1)\nin f {{N}} 0\n", PRE)),
        6 => ("tail-record-of-functions", format!("{}rec let r = {{ go = \\n acc -> if n #Int< 1 then acc else r.go (n #Int- 1) (acc #Int+ 1) }}\nin r.go {{N}} 0\n", PRE)),
        7 => ("tail-partial-application", format!("{}rec let f a n acc = if n #Int< 1 then acc else (f a) (n #Int- 1) (acc #Int+ a)\nin f 1 {{N}} 0\n", PRE)),
        _ => ("tail-in-let-body", format!("{}rec let f n acc =\n    let m = n #Int- 1\n    if n #Int< 1 then acc else f m (acc #Int+ 1)\nin f {{N}} 0\n", PRE)),
    }
}

fn outcome_kind(o: &Outcome) -> String {
    match o {
        Outcome::Value(..) => "value".into(),
        // a limit hit inside a primitive reaches the host as a panic-class error carrying the
        // limit error's text: still "the corresponding error"
        Outcome::Error(_, m) if m.contains("out of memory") => "out-of-memory".into(),
        Outcome::Error(_, m) if m.contains("stack has overflowed") || m.contains("Stack overflow") => "stack-overflow".into(),
        Outcome::Error(c, _) => c.clone(),
    }
}

fn fresh() -> RootedThread {
    let mut s = Settings::PLAIN;
    s.optimize = true;
    vm_with(s)
}

impl Worker for W {
    fn gen(&mut self, rng: &mut Rng, idx: u64) -> Option<Value> {
        let k = idx as usize;
        match self.phase.as_str() {
            "memory-limit" => {
                let n = *rng.pick(&[10usize, 50, 200, 1000, 5000]);
                let (fam, src) = memory_family(k, n);
                let extra = match rng.below(4) {
                    0 => 8 * rng.below(64),
                    1 => 8 * rng.below(600),
                    2 => rng.below(100_000),
                    _ => 1_000_000,
                };
                Some(json!({"family": fam, "n": n, "src": src, "limit_extra": extra, "key": {"family": fam}}))
            }
            "stack-limit" => {
                let n = *rng.pick(&[3usize, 10, 50, 300, 2000, 20000]);
                let (fam, src) = stack_family(k, n);
                let limit = *rng.pick(&[3u32, 4, 5, 6, 8, 10, 12, 16, 24, 32, 64, 100, 256, 1000, 10000]);
                Some(json!({"family": fam, "n": n, "src": src, "stack_limit": limit, "key": {"family": fam}}))
            }
            "tail-constant" => {
                let (fam, tpl) = tail_family(k);
                Some(json!({"family": fam, "template": tpl, "key": {"family": fam}}))
            }
            "deep" => {
                let depth = *rng.pick(&[100_000usize, 300_000, 1_000_000]);
                let (fam, src) = match k % 4 {
                    0 => ("deep-non-tail-recursion", stack_family(0, depth).1),
                    1 => ("deep-mutual-recursion", stack_family(1, depth).1),
                    2 => ("deep-list-then-collect", memory_family(1, depth).1),
                    _ => ("deep-nested-record-then-collect", format!("{}rec let go n r = if n #Int< 1 then 0 else go (n #Int- 1) {{ a = n, b = r }}\nin go {} {{ a = 0, b = {{ a = 0, b = () }} }}\n", PRE, 0)),
                };
                let src = if k % 4 == 3 {
                    // nesting built through an opaque tail: a list of records nested by a variant
                    format!("{}type T = | Leaf | Node T\nrec let build n acc = if n #Int< 1 then acc else build (n #Int- 1) (Node acc)\nin\nmatch build {} Leaf with\n| Leaf -> 0\n| Node _ -> 1\n", PRE, depth)
                } else {
                    src
                };
                Some(json!({"family": fam, "n": depth, "src": src, "key": {"family": fam}}))
            }
            _ if k % 3 == 2 => {
                // the interrupt arrives while the program runs below an error-catching construct:
                // the handler must not turn the interrupt into a normal continuation
                let after = 1 + rng.below(50_000) as u64;
                let handler = match rng.below(4) {
                    0 => "wrap 42",
                    1 => "wrap (spin 2000000000 0)",
                    2 => "io.catch (wrap (spin 2000000000 0)) (\\e2 -> wrap 43)",
                    _ => "wrap (spin 1000 0)",
                };
                let src = format!(
                    "let {{ wrap }} = import! std.applicative\nlet io @ {{ ? }} = import! std.io\nrec let spin n acc = if n #Int< 1 then acc else spin (n #Int- 1) (acc #Int+ 1)\nin\nlet action =\n    do _ = wrap ()\n    wrap (spin 2000000000 0)\nio.catch action (\\e -> {})\n",
                    handler
                );
                Some(json!({"family": "interrupt-inside-catch", "src": src, "interrupt_after_calls": after, "io": true, "key": {"family": "interrupt-inside-catch"}}))
            }
            _ => {
                let after = 1 + rng.below(50_000) as u64;
                let (fam, tpl) = tail_family(rng.below(9));
                Some(json!({"family": fam, "src": tpl.replace("{N}", "2000000000"), "interrupt_after_calls": after, "key": {"family": fam}}))
            }
        }
    }

    fn run(&mut self, case: &Value) -> CaseResult {
        let fam = case["family"].as_str().unwrap_or("").to_string();
        let h = hash_str(&case.to_string());
        let mut r = CaseResult::ok(h, false);
        r.feat(fam.clone());
        match self.phase.as_str() {
            "memory-limit" => {
                let src = case["src"].as_str().unwrap();
                let vm = fresh();
                // warm-up: load the imported modules, then take the baseline
                let _ = run_program(&vm, "c07_warm", &format!("{}()\n", PRE));
                vm.collect();
                let base = vm.allocated_memory();
                let limit = base + case["limit_extra"].as_u64().unwrap_or(0) as usize;
                verif::reset_counters();
                vm.set_memory_limit(limit);
                let out = run_program_budget(&vm, "c07_mem", src, 50_000_000);
                let over = verif::ALLOC_OVER_LIMIT.load(Ordering::SeqCst) as u64;
                let over_max = verif::ALLOC_OVER_LIMIT_MAX.load(Ordering::SeqCst) as u64;
                let peak = verif::ALLOC_PEAK.load(Ordering::SeqCst) as u64;
                let allocs = verif::ALLOCATIONS.load(Ordering::SeqCst) as u64;
                vm.set_memory_limit(usize::MAX);
                r.stat("limit_checked_allocations_observed", allocs);
                let kind = outcome_kind(&out);
                r.stat(&format!("outcome_{}", kind.replace('-', "_")), 1);
                r.nontrivial = kind == "out-of-memory" || peak as usize > base;
                if over > 0 {
                    let mut v = CaseResult::violation(
                        h,
                        format!("memory accounted to the thread exceeded the limit: limit {} bytes, peak {} bytes ({} allocations left allocated_memory above the limit, by up to {} bytes); outcome {}", limit, peak, over, over_max, out.short()),
                        json!({"kind": "memory-limit-exceeded", "excess_at_most_one_header": over_max <= 64}),
                    );
                    v.stats = r.stats;
                    return v;
                }
                if !matches!(kind.as_str(), "value" | "out-of-memory") {
                    return CaseResult::violation(h, format!("with memory limit {} the program neither completed nor failed with OutOfMemory: {}", limit, out.short()), json!({"kind": "unexpected-outcome-under-memory-limit", "outcome": kind}));
                }
            }
            "stack-limit" => {
                let src = case["src"].as_str().unwrap();
                let limit = case["stack_limit"].as_u64().unwrap_or(100) as u32;
                let vm = fresh();
                let _ = run_program(&vm, "c07_warm", &format!("{}()\n", PRE));
                verif::reset_counters();
                vm.context().set_max_stack_size(limit);
                let out = run_program_budget(&vm, "c07_stack", src, 50_000_000);
                let over = verif::STACK_OVER_LIMIT.load(Ordering::SeqCst) as u64;
                let over_max = verif::STACK_OVER_LIMIT_MAX.load(Ordering::SeqCst) as u64;
                let static_over = verif::FRAME_OVER_STATIC.load(Ordering::SeqCst) as u64;
                let peak = verif::STACK_PEAK.load(Ordering::SeqCst) as u64;
                let instr = verif::INSTRUCTIONS.load(Ordering::SeqCst);
                r.stat("instructions_observed", instr);
                let kind = outcome_kind(&out);
                r.stat(&format!("outcome_{}", kind.replace('-', "_")), 1);
                r.nontrivial = kind == "stack-overflow" || peak > 0;
                if over > 0 {
                    let mut v = CaseResult::violation(
                        h,
                        format!("value stack exceeded the configured limit: limit {} slots, peak {} slots ({} observations above the limit, by up to {}); outcome {}", limit, peak, over, over_max, out.short()),
                        json!({"kind": "stack-limit-exceeded", "excess": if over_max <= 2 { "<=2" } else { ">2" }}),
                    );
                    v.stats = r.stats;
                    return v;
                }
                if static_over > 0 {
                    return CaseResult::violation(h, format!("a frame held more slots than the function's statically computed max_stack_size at {} instruction boundaries", static_over), json!({"kind": "static-stack-bound-exceeded"}));
                }
                if !matches!(kind.as_str(), "value" | "stack-overflow") {
                    return CaseResult::violation(h, format!("with stack limit {} the program neither completed nor failed with StackOverflow: {}", limit, out.short()), json!({"kind": "unexpected-outcome-under-stack-limit", "outcome": kind}));
                }
            }
            "tail-constant" => {
                let tpl = case["template"].as_str().unwrap();
                let mut peaks = Vec::new();
                for n in [10u64, 1_000, 100_000] {
                    let vm = fresh();
                    let _ = run_program(&vm, "c07_warm", &format!("{}()\n", PRE));
                    verif::reset_counters();
                    let out = run_program_budget(&vm, "c07_tail", &tpl.replace("{N}", &n.to_string()), 100_000_000);
                    let peak = verif::STACK_PEAK.load(Ordering::SeqCst) as u64;
                    r.stat("instructions_observed", verif::INSTRUCTIONS.load(Ordering::SeqCst));
                    if !matches!(out, Outcome::Value(..)) {
                        return CaseResult::violation(h, format!("tail-recursive family {} fails at n = {}: {}", fam, n, out.short()), json!({"kind": "tail-family-fails", "outcome": outcome_kind(&out)}));
                    }
                    peaks.push(peak);
                }
                r.nontrivial = true;
                r.stat("tail_families_measured", 1);
                if !(peaks[0] == peaks[1] && peaks[1] == peaks[2]) {
                    return CaseResult::violation(
                        h,
                        format!("peak value-stack length of the tail-recursive family {} grows with n: {:?} slots at n = 10, 10^3, 10^5", fam, peaks),
                        json!({"kind": "tail-call-stack-grows", "family": fam}),
                    );
                }
            }
            "deep" => {
                let src = case["src"].as_str().unwrap().to_string();
                // on a thread with an ordinary 8 MiB stack (the harness' own main thread is huge,
                // which would hide native stack exhaustion)
                let out = std::thread::Builder::new()
                    .stack_size(8 << 20)
                    .spawn(move || {
                        let vm = fresh();
                        let out = run_program_budget(&vm, "c07_deep", &src, 500_000_000);
                        // a collection with the (possibly deep) result still reachable
                        vm.collect();
                        out
                    })
                    .unwrap()
                    .join()
                    .unwrap_or(Outcome::Error("host-panic".into(), "panic on the evaluation thread".into()));
                let kind = outcome_kind(&out);
                r.stat(&format!("outcome_{}", kind.replace('-', "_")), 1);
                r.nontrivial = true;
                if !matches!(kind.as_str(), "value" | "stack-overflow" | "out-of-memory" | "budget") {
                    return CaseResult::violation(h, format!("deep program ended with {}", out.short()), json!({"kind": "unexpected-outcome-deep", "outcome": kind}));
                }
            }
            _ => {
                let src = case["src"].as_str().unwrap().to_string();
                let after = case["interrupt_after_calls"].as_u64().unwrap_or(1000);
                let io = case["io"] == true;
                let vm = if io {
                    let mut st = Settings::PLAIN;
                    st.prelude = true;
                    st.run_io = true;
                    vm_with(st)
                } else {
                    fresh()
                };
                if io {
                    // load everything the program imports before calls are counted
                    let _ = run_program(&vm, "c07_warm", "let { wrap } = import! std.applicative\nlet io @ { ? } = import! std.io\nio.catch (wrap 1) (\\e -> wrap 2)\n");
                } else {
                    let _ = run_program(&vm, "c07_warm", &format!("{}()\n", PRE));
                }
                // call-step counter through the VM's own debug hook
                let calls = Arc::new(AtomicU64::new(0));
                let at_interrupt = Arc::new(AtomicU64::new(u64::MAX));
                let done = Arc::new(AtomicBool::new(false));
                {
                    use gluon::vm::thread::HookFlags;
                    use std::task::Poll;
                    let c2 = calls.clone();
                    let mut ctx = vm.context();
                    ctx.set_hook(Some(Box::new(move |_, _| {
                        let n = c2.fetch_add(1, Ordering::SeqCst);
                        if n > 400_000_000 {
                            return Poll::Ready(Err(gluon::vm::Error::Message(BUDGET_MSG.to_string())));
                        }
                        Poll::Ready(Ok(()))
                    })));
                    ctx.set_hook_mask(HookFlags::CALL_FLAG);
                }
                let vm2 = vm.clone();
                let (c3, a3, d3) = (calls.clone(), at_interrupt.clone(), done.clone());
                let t = std::thread::spawn(move || {
                    // wait (bounded) until the program executed `after` calls, then interrupt
                    let start = std::time::Instant::now();
                    while c3.load(Ordering::SeqCst) < after && !d3.load(Ordering::SeqCst) && start.elapsed().as_secs() < 60 {
                        std::hint::spin_loop();
                    }
                    vm2.interrupt();
                    a3.store(c3.load(Ordering::SeqCst), Ordering::SeqCst);
                });
                let out = run_program(&vm, "c07_int", &src);
                done.store(true, Ordering::SeqCst);
                let _ = t.join();
                let total = calls.load(Ordering::SeqCst);
                let at = at_interrupt.load(Ordering::SeqCst);
                let kind = outcome_kind(&out);
                r.stat("interrupts_issued", 1).stat(&format!("outcome_{}", kind.replace('-', "_")), 1);
                r.nontrivial = true;
                // inside io.catch the interruption surfaces as the message of the failed handler
                let interrupted = kind == "interrupted" || matches!(&out, Outcome::Error(_, m) if m.contains("Thread was interrupted") || m.contains("nterrupted"));
                if !interrupted {
                    return CaseResult::violation(h, format!("a long-running program was interrupted after {} calls but ended with {} (total calls {})", at, out.short(), total), json!({"kind": "interrupt-ignored", "outcome": kind}));
                }
                let after_calls = total.saturating_sub(at);
                r.stat("max_calls_after_interrupt_x", after_calls);
                if after_calls > 100 {
                    return CaseResult::violation(h, format!("{} call steps were executed after interrupt() returned", after_calls), json!({"kind": "interrupt-late"}));
                }
            }
        }
        r
    }
}

#[allow(dead_code)]
fn _t(_: &Thread) {}
