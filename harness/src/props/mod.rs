use crate::prop::Prop;
pub mod c01;
pub mod c02;
pub mod c03;
pub mod c04;
pub mod c05;
pub mod c06;
pub mod c07;
pub mod c08;
pub mod c09;
pub mod c10;
pub mod c11;
pub mod c12;
pub mod c13;
pub mod c14;
pub mod c15;
pub mod c16;
pub mod c17;
pub mod c18;
pub mod c19;
pub mod c20;
pub mod tools;

pub fn lookup(id: &str) -> Option<&'static dyn Prop> {
    Some(match id {
        "C01" => &c01::C01,
        "C02" => &c02::C02,
        "C03" => &c03::C03,
        "C04" => &c04::C04,
        "C05" => &c05::C05,
        "C06" => &c06::C06,
        "C07" => &c07::C07,
        "C08" => &c08::C08,
        "C09" => &c09::C09,
        "C10" => &c10::C10,
        "C11" => &c11::C11,
        "C12" => &c12::C12,
        "C13" => &c13::C13,
        "C14" => &c14::C14,
        "C15" => &c15::C15,
        "C16" => &c16::C16,
        "C17" => &c17::C17,
        "C18" => &c18::C18,
        "C19" => &c19::C19,
        "C20" => &c20::C20,
        _ => return None,
    })
}
