use crate::prop::Prop;
pub mod c01;
pub mod c04;
pub mod c05;
pub mod tools;

pub fn lookup(id: &str) -> Option<&'static dyn Prop> {
    Some(match id {
        "C01" => &c01::C01,
        "C04" => &c04::C04,
        "C05" => &c05::C05,
        _ => return None,
    })
}
