use crate::prop::Prop;
pub mod c01;
pub mod tools;

pub fn lookup(id: &str) -> Option<&'static dyn Prop> {
    Some(match id {
        "C01" => &c01::C01,
        _ => return None,
    })
}
