//! C16 — compilation and evaluation are deterministic: byte equality of (value, type text,
//! diagnostics text) across fresh VMs, a long-lived VM after unrelated work, permuted order, and a
//! separate process.
use crate::lang::gen::{gen_program, GenOpts};
use crate::lang::mutate::mutate;
use crate::lang::print::{print_program, Style};
use crate::prop::*;
use crate::rng::{hash_str, Rng};
use crate::vmutil::*;
use gluon::vm::api::{Hole, OpaqueValue};
use gluon::{Thread, ThreadExt};
use serde_json::{json, Value};
use std::io::Write;
use std::process::{Command, Stdio};

pub struct C16;

impl Prop for C16 {
    fn id(&self) -> &'static str {
        "C16"
    }
    fn rule(&self) -> &'static str {
        "batches of generated programs (well-typed G-prog programs and ill-typed / multi-error mutants); each program is rendered to (value | diagnostics text via emit_string, type text) in five contexts: a fresh VM, a second fresh VM, a long-lived VM in batch order, a long-lived VM in permuted order, and a separate process (other address-space layout, other hash seeds) in permuted order; all renderings must be byte-identical; in addition every program is compiled under ONE shared module name on a long-lived VM (the texts one after the other, then the first four again: A, B, ..., A) and must render as on a fresh VM under that name; non-trivial = the program has a non-literal result or a diagnostic; distinct = program text"
    }
    fn assumptions(&self) -> Vec<String> {
        vec!["entropy sources varied: address-space layout and std's per-process hash seeds (separate process), VM history, evaluation order".into()]
    }
    fn phases(&self, tier: Tier) -> Vec<Phase> {
        vec![Phase::new("batches", tier.pick(160, 4000)).min_cases(tier.pick(40, 800)).timeouts(300, tier.pick(300, 1500))]
    }
    fn death_is_violation(&self) -> bool {
        false
    }
    fn worker(&self, ctx: &WorkerCtx) -> Box<dyn Worker> {
        Box::new(W { prelude_share: if ctx.tier == Tier::Quick { 8 } else { 5 } })
    }
}

struct W {
    prelude_share: u32,
}

fn render_one(vm: &Thread, name: &str, src: &str) -> String {
    set_call_budget(vm, 2_000_000);
    let res = crate::worker::guarded(|| match vm.run_expr::<OpaqueValue<&Thread, Hole>>(name, src) {
        Ok((v, t)) => {
            let mut s = String::new();
            render(v.get_ref(), &mut s, 0);
            format!("VALUE {}\nTYPE {}", s, t)
        }
        Err(e) => {
            let plain = e.to_string();
            let rendered = e.emit_string().unwrap_or_else(|err| format!("<emit_string failed: {}>", err));
            // An internal failure (ice!) that is reported as an error prints the Debug form of a
            // value, addresses included; like for compiler panics below only the text outside the
            // addresses takes part in the comparison (the failure itself is C01 / C02's finding)
            if plain.contains("Please report an issue at https://github.com/gluon-lang/gluon/issues") {
                format!("ERROR {}\nRENDERED {}", mask_addresses(&plain), mask_addresses(&rendered))
            } else {
                format!("ERROR {}\nRENDERED {}", plain, rendered)
            }
        }
    });
    match res {
        Ok(s) => {
            clear_call_budget(vm);
            s
        }
        // a compiler panic is C01/C02/C09's finding; its message prints addresses, so only the
        // panic site takes part in the comparison
        Err((loc, _)) => format!("PANIC {}", crate::worker::strip_repo(&loc)),
    }
}

/// `0x55daefd757c0` -> `0x?`
fn mask_addresses(s: &str) -> String {
    let mut out = String::new();
    let mut rest = s;
    while let Some(p) = rest.find("0x") {
        out.push_str(&rest[..p + 2]);
        let tail = &rest[p + 2..];
        let n = tail.chars().take_while(|c| c.is_ascii_hexdigit()).count();
        if n >= 6 {
            out.push('?');
            rest = &tail[n..];
        } else {
            rest = tail;
        }
    }
    out.push_str(rest);
    out
}

/// erases the numeric suffix of generated `implicit?N` binder names
fn mask_implicit(s: &str) -> String {
    let mut out = String::new();
    let mut rest = s;
    while let Some(p) = rest.find("implicit?") {
        out.push_str(&rest[..p + 9]);
        rest = rest[p + 9..].trim_start_matches(|c: char| c.is_ascii_digit());
        out.push('N');
    }
    out.push_str(rest);
    out
}

fn mk(prelude: bool) -> gluon::RootedThread {
    let mut s = Settings::PLAIN;
    s.prelude = prelude;
    s.optimize = true;
    vm_with(s)
}

/// Child-process mode: reads a JSON batch on stdin, prints the renderings as a JSON array
pub fn batch_main() {
    crate::worker::install_panic_hook();
    let mut input = String::new();
    std::io::Read::read_to_string(&mut std::io::stdin(), &mut input).unwrap();
    let batch: Value = serde_json::from_str(&input).unwrap();
    let prelude = batch["prelude"].as_bool().unwrap_or(false);
    let order: Vec<usize> = batch["order"].as_array().unwrap().iter().map(|x| x.as_u64().unwrap() as usize).collect();
    let progs: Vec<String> = batch["programs"].as_array().unwrap().iter().map(|x| x.as_str().unwrap().to_string()).collect();
    let mut vm = mk(prelude);
    let mut out = vec![String::new(); progs.len()];
    for i in order {
        let r = render_one(&vm, &format!("p{:x}", hash_str(&progs[i])), &progs[i]);
        if r.starts_with("PANIC") {
            vm = mk(prelude);
        }
        out[i] = r;
    }
    println!("{}", serde_json::to_string(&out).unwrap());
}

impl Worker for W {
    fn gen(&mut self, rng: &mut Rng, _idx: u64) -> Option<Value> {
        let n = 12 + rng.below(12);
        let prelude = rng.chance(1, self.prelude_share);
        let mut programs = Vec::new();
        let mut kinds = Vec::new();
        for _ in 0..n {
            let mut opts = GenOpts::default_ordered();
            opts.max_depth = 3 + rng.below(4) as u32;
            opts.node_budget = 30 + rng.below(70) as i32;
            opts.fail_pct = 25;
            let g = gen_program(rng, opts);
            let src = print_program(&g.program, Style::from_bits(rng.next() as u32 & 0b11011));
            match rng.below(3) {
                0 => {
                    programs.push(src);
                    kinds.push("well-typed");
                }
                1 => {
                    let (m, _) = mutate(&src, rng);
                    programs.push(m);
                    kinds.push("mutant");
                }
                _ => {
                    // several independent mutations: multi-error inputs
                    let mut m = src;
                    for _ in 0..(2 + rng.below(3)) {
                        m = mutate(&m, rng).0;
                    }
                    programs.push(m);
                    kinds.push("multi-mutant");
                }
            }
        }
        let mut order: Vec<usize> = (0..n).collect();
        rng.shuffle(&mut order);
        let mut order2: Vec<usize> = (0..n).collect();
        rng.shuffle(&mut order2);
        Some(json!({"programs": programs, "kinds": kinds, "prelude": prelude, "order": order, "order2": order2}))
    }

    fn run(&mut self, case: &Value) -> CaseResult {
        let prelude = case["prelude"].as_bool().unwrap_or(false);
        let progs: Vec<String> = case["programs"].as_array().unwrap().iter().map(|x| x.as_str().unwrap().to_string()).collect();
        let order: Vec<usize> = case["order"].as_array().unwrap().iter().map(|x| x.as_u64().unwrap() as usize).collect();
        let h = hash_str(&progs.join("\u{0}"));
        let names: Vec<String> = progs.iter().map(|p| format!("p{:x}", hash_str(p))).collect();
        let n = progs.len();
        // contexts 1, 2: fresh VM per program
        let mut ctx: Vec<(&str, Vec<String>)> = Vec::new();
        for label in ["fresh-vm-1", "fresh-vm-2"] {
            let mut v = Vec::new();
            for i in 0..n {
                let vm = mk(prelude);
                v.push(render_one(&vm, &names[i], &progs[i]));
            }
            ctx.push((label, v));
        }
        // context 3: long-lived VM, batch order; context 4: long-lived VM, permuted order
        for (label, ord) in [("long-lived-in-order", (0..n).collect::<Vec<_>>()), ("long-lived-permuted", order.clone())] {
            let mut vm = mk(prelude);
            let mut v = vec![String::new(); n];
            for i in ord {
                let r = render_one(&vm, &names[i], &progs[i]);
                if r.starts_with("PANIC") {
                    vm = mk(prelude);
                }
                v[i] = r;
            }
            ctx.push((label, v));
        }
        // context 5: separate process, second permutation
        let exe = std::env::current_exe().unwrap();
        let batch = json!({"programs": progs, "prelude": prelude, "order": case["order2"]});
        let child = Command::new(exe).arg("c16-batch").stdin(Stdio::piped()).stdout(Stdio::piped()).stderr(Stdio::null()).spawn();
        let mut r = CaseResult::ok(h, true);
        match child {
            Ok(mut ch) => {
                ch.stdin.take().unwrap().write_all(batch.to_string().as_bytes()).ok();
                match ch.wait_with_output() {
                    Ok(out) if out.status.success() => {
                        let text = String::from_utf8_lossy(&out.stdout);
                        let line = text.lines().rev().find(|l| l.starts_with('[')).unwrap_or("[]");
                        let v: Vec<String> = serde_json::from_str(line).unwrap_or_default();
                        if v.len() == n {
                            ctx.push(("separate-process", v));
                            r.stat("separate_process_batches", 1);
                        } else {
                            r.stat("separate_process_unreadable", 1);
                        }
                    }
                    _ => {
                        // the child died (a crash is C06/C09's business): context not available
                        r.stat("separate_process_died", 1);
                    }
                }
            }
            Err(_) => {
                r.stat("separate_process_spawn_failed", 1);
            }
        }
        // contexts 6-8: every program under ONE module name. Baseline: a fresh VM per program;
        // then a long-lived VM that sees the texts one after the other under that name, and
        // finally the first few texts again (A, B, ..., A): what was compiled earlier under a
        // name must not influence what the same text gives later
        {
            let shared = "c16_shared";
            let mut base = Vec::new();
            for i in 0..n {
                let vm = mk(prelude);
                base.push(render_one(&vm, shared, &progs[i]));
            }
            let mut vm = mk(prelude);
            let mut seq: Vec<usize> = order.clone();
            seq.extend(order.iter().take(4).cloned());
            for (k, i) in seq.iter().enumerate() {
                let got = render_one(&vm, shared, &progs[*i]);
                r.stat("same_name_renderings", 1);
                if got.starts_with("PANIC") && !base[*i].starts_with("PANIC") || got != base[*i] {
                    let (a, b) = base[*i].lines().zip(got.lines()).find(|(x, y)| x != y).map(|(x, y)| (x.to_string(), y.to_string())).unwrap_or((base[*i].chars().take(200).collect(), got.chars().take(200).collect()));
                    let label = if k >= n { "long-lived-same-name-resubmitted" } else { "long-lived-same-name" };
                    let kind = |s: &str| s.split(' ').next().unwrap_or("").to_string();
                    let mut viol = CaseResult::violation(
                        hash_str(&progs[*i]),
                        format!("program #{} (step {} of a history under one module name) renders differently than on a fresh VM under that name:\n  {}\n  {}\nprogram:\n{}", i, k, a, b, progs[*i]),
                        json!({"kind": "nondeterministic-rendering", "context": label, "first": kind(&base[*i]), "other": kind(&got), "differs_only_in": if mask_implicit(&base[*i]) == mask_implicit(&got) { "implicit-binder-counter" } else { "other" }}),
                    );
                    viol.stats = r.stats.clone();
                    return viol;
                }
                if got.starts_with("PANIC") {
                    vm = mk(prelude);
                }
            }
        }
        r.stat("programs_rendered", n as u64).stat("contexts_compared", ctx.len() as u64 + 2);
        for i in 0..n {
            let first = &ctx[0].1[i];
            if first.starts_with("VALUE") {
                r.stat("value_renderings", 1);
            } else if first.starts_with("ERROR") {
                r.stat("diagnostic_renderings", 1);
            } else {
                r.stat("panic_renderings", 1);
            }
            for (label, v) in &ctx[1..] {
                if &v[i] != first {
                    // first differing line as witness
                    let (a, b) = first.lines().zip(v[i].lines()).find(|(x, y)| x != y).map(|(x, y)| (x.to_string(), y.to_string())).unwrap_or((first.chars().take(200).collect(), v[i].chars().take(200).collect()));
                    let kind = |s: &str| s.split(' ').next().unwrap_or("").to_string();
                    // do the two renderings differ only in the numeric suffix of generated
                    // `implicit?N` binder names?
                    let mask = |s: &str| {
                        let mut out = String::new();
                        let mut rest = s;
                        while let Some(p) = rest.find("implicit?") {
                            out.push_str(&rest[..p + 9]);
                            rest = rest[p + 9..].trim_start_matches(|c: char| c.is_ascii_digit());
                            out.push('N');
                        }
                        out.push_str(rest);
                        out
                    };
                    let only_implicit_counter = mask(first) == mask(&v[i]);
                    let mut viol = CaseResult::violation(
                        hash_str(&progs[i]),
                        format!("program #{} renders differently in context {} than in {}:\n  {}\n  {}\nprogram:\n{}", i, label, ctx[0].0, a, b, progs[i]),
                        json!({"kind": "nondeterministic-rendering", "context": label, "first": kind(first), "other": kind(&v[i]), "differs_only_in": if only_implicit_counter { "implicit-binder-counter" } else { "other" }}),
                    );
                    viol.stats = r.stats.clone();
                    return viol;
                }
            }
        }
        r
    }
}
