//! C15 — modules: evaluated once, cycles rejected, reloads never stale. Edit histories over a
//! small module graph are applied to one long-lived VM; every evaluation in the history is also
//! done on a fresh VM that is given the latest sources only, and the two must agree.
use crate::prop::*;
use crate::rng::{hash_str, Rng};
use crate::vmutil::*;
use gluon::query::CompilationBase;
use gluon::ThreadExt;
use serde_json::{json, Value};
use std::collections::{BTreeMap, BTreeSet};
use std::fmt::Write;

pub struct C15;

impl Prop for C15 {
    fn id(&self) -> &'static str {
        "C15"
    }
    fn rule(&self) -> &'static str {
        "edit histories (4-14 steps) over graphs of up to 6 in-memory modules: add a module (source registered only, or loaded), change an exported value, change an exported value's type or an exported type definition, add / remove an import edge, introduce / remove an import cycle, import a module that does not exist yet and add it later, interleaved with evaluations of expressions importing a subset; every evaluation and every load is repeated on a fresh VM given only the latest sources and must give the same value, type, or error class and first message line; the extern function verif.fx.loaded at the top of every module body counts body evaluations on the long-lived VM: more than one run of a module's body between two source changes is a violation; an evaluation that reaches a cycle must report an error that names a module of the cycle; CPU-budget and blocked-forever monitors catch hangs; non-trivial = the history changes at least one module that had already been evaluated; distinct = history"
    }
    fn phases(&self, tier: Tier) -> Vec<Phase> {
        vec![
            Phase::new("histories", tier.pick(40_000, 800_000)).min_cases(tier.pick(10_000, 200_000)).timeouts(120, tier.pick(400, 3000)),
            Phase::new("small-exhaustive", exhaustive_total(tier)).exhaustive(true).min_cases(tier.pick(5000, 100_000)).timeouts(120, tier.pick(400, 3000)),
        ]
    }
    fn worker(&self, ctx: &WorkerCtx) -> Box<dyn Worker> {
        crate::worker::set_cpu_budget(60.0);
        crate::worker::set_idle_hang(8.0);
        Box::new(W { exhaustive: ctx.phase == "small-exhaustive", tier: ctx.tier })
    }
}

struct W {
    exhaustive: bool,
    tier: Tier,
}

#[derive(Clone, Copy, PartialEq, Debug)]
enum VTy {
    Int,
    Str,
    Float,
}

#[derive(Clone, Debug)]
struct Mod {
    ver: u32,
    imports: Vec<usize>,
    vty: VTy,
    /// exported record type definition variant (None = no type export)
    tdef: Option<u32>,
    /// which imports' `v` field the body uses, with the type it assumed when written
    uses: Vec<(usize, VTy)>,
}

fn mname(i: usize) -> String {
    format!("c15m{}", i)
}

fn lit(t: VTy, k: i64) -> String {
    match t {
        VTy::Int => format!("{}", k),
        VTy::Str => format!("\"s{}\"", k),
        VTy::Float => format!("{}.5", k),
    }
}

fn module_src(i: usize, m: &Mod) -> String {
    let mut s = String::new();
    let _ = writeln!(s, "let fx = import! verif.fx");
    let _ = writeln!(s, "let _ = fx.loaded {}", i as i64 * 1000 + m.ver as i64);
    for &d in &m.imports {
        let _ = writeln!(s, "let d{} = import! {}", d, mname(d));
    }
    if let Some(t) = m.tdef {
        let _ = writeln!(s, "type T = {{ a : {}, b : Int }}", if t % 2 == 0 { "Int" } else { "String" });
    }
    let mut n = format!("{}", i as i64 * 100 + m.ver as i64);
    for &d in &m.imports {
        let _ = write!(n, " + d{}.n", d);
    }
    let _ = writeln!(s, "let n : Int = {}", n);
    let mut v = lit(m.vty, i as i64 * 10 + m.ver as i64);
    for &(d, t) in &m.uses {
        // a use of the dependency's `v` that only type checks at the type assumed
        let probe = match t {
            VTy::Int => format!("d{}.v #Int+ 1", d),
            VTy::Float => format!("d{}.v #Float+ 1.0", d),
            VTy::Str => format!("(let q : String = d{}.v in q)", d),
        };
        v = format!("(let _ = {} in {})", probe, v);
    }
    let _ = writeln!(s, "let v = {}", v);
    if let Some(t) = m.tdef {
        let a = if t % 2 == 0 { "1".to_string() } else { "\"x\"".to_string() };
        let _ = writeln!(s, "let r : T = {{ a = {}, b = {} }}", a, m.ver);
        let _ = writeln!(s, "{{ T, n, v, r, f = \\x -> x #Int+ n }}");
    } else {
        let _ = writeln!(s, "{{ n, v, f = \\x -> x #Int+ n }}");
    }
    s
}

fn eval_src(mods: &[usize], with_v: bool) -> String {
    let mut s = String::new();
    for &d in mods {
        let _ = writeln!(s, "let d{} = import! {}", d, mname(d));
    }
    let mut parts = Vec::new();
    for &d in mods {
        parts.push(format!("d{}.f 1", d));
        if with_v {
            parts.push(format!("d{}.v", d));
        }
    }
    if parts.len() == 1 {
        let _ = writeln!(s, "{}", parts[0]);
    } else {
        let _ = writeln!(s, "({})", parts.join(", "));
    }
    s
}

fn has_cycle_from(mods: &BTreeMap<usize, Mod>, start: usize) -> Option<Vec<usize>> {
    // DFS from start looking for any cycle reachable
    fn go(mods: &BTreeMap<usize, Mod>, n: usize, stack: &mut Vec<usize>, done: &mut BTreeSet<usize>) -> Option<Vec<usize>> {
        if let Some(p) = stack.iter().position(|&x| x == n) {
            return Some(stack[p..].to_vec());
        }
        if done.contains(&n) {
            return None;
        }
        stack.push(n);
        if let Some(m) = mods.get(&n) {
            for &d in &m.imports {
                if let Some(c) = go(mods, d, stack, done) {
                    return Some(c);
                }
            }
        }
        stack.pop();
        done.insert(n);
        None
    }
    go(mods, start, &mut Vec::new(), &mut BTreeSet::new())
}

fn exhaustive_total(tier: Tier) -> u64 {
    // histories of length L over 3 modules with an 11-letter alphabet
    let l = tier.pick(4, 5);
    (1..=l).map(|k| 11u64.pow(k)).sum()
}

/// Generates a history as a list of concrete steps (sources included, so replay needs nothing)
fn gen_history(rng: &mut Rng, script: Option<Vec<u32>>) -> Value {
    let mut mods: BTreeMap<usize, Mod> = BTreeMap::new();
    let mut steps: Vec<Value> = Vec::new();
    let mut evaluated: BTreeSet<usize> = BTreeSet::new();
    let mut changed_after_eval = false;
    let maxm = if script.is_some() { 3 } else { 6 };
    let push_src = |steps: &mut Vec<Value>, mods: &BTreeMap<usize, Mod>, i: usize, load: bool, what: &str| {
        steps.push(json!({"op": if load { "load" } else { "set" }, "m": i, "src": module_src(i, &mods[&i]), "what": what}));
    };
    let fresh_uses = |rng: &mut Rng, mods: &BTreeMap<usize, Mod>, imports: &[usize]| -> Vec<(usize, VTy)> {
        imports.iter().filter(|_| rng.chance(1, 2)).filter_map(|&d| mods.get(&d).map(|m| (d, m.vty))).collect()
    };
    if script.is_some() {
        // three modules: m1 imports m0, m2 imports m0 and m1 (a diamond-ish chain)
        mods.insert(0, Mod { ver: 0, imports: vec![], vty: VTy::Int, tdef: Some(0), uses: vec![] });
        mods.insert(1, Mod { ver: 0, imports: vec![0], vty: VTy::Int, tdef: None, uses: vec![(0, VTy::Int)] });
        mods.insert(2, Mod { ver: 0, imports: vec![0, 1], vty: VTy::Int, tdef: None, uses: vec![(1, VTy::Int)] });
        for i in 0..3 {
            push_src(&mut steps, &mods, i, false, "initial");
        }
    }
    let nsteps = script.as_ref().map(|s| s.len()).unwrap_or(4 + rng.below(11));
    for k in 0..nsteps {
        let choice = match &script {
            Some(s) => s[k],
            None => *rng.pick(&[0u32, 1, 2, 0, 3, 3, 4, 5, 6, 7, 8, 9, 9, 10, 12, 12, 13, 13, 13]),
        };
        let existing: Vec<usize> = mods.keys().cloned().collect();
        let pick_mod = |rng: &mut Rng, k: usize| -> Option<usize> {
            if existing.is_empty() {
                None
            } else if script.is_some() {
                Some(existing[k % existing.len()])
            } else {
                Some(existing[rng.below(existing.len())])
            }
        };
        let load = if script.is_some() { false } else { rng.chance(1, 3) };
        match choice {
            // evaluate (scripted: eval m2 / eval m1 / eval m0)
            0 | 1 | 2 => {
                let subset: Vec<usize> = if script.is_some() {
                    vec![2 - choice as usize]
                } else {
                    let mut v: Vec<usize> = existing.iter().cloned().filter(|_| rng.chance(1, 2)).collect();
                    if v.is_empty() {
                        if let Some(m) = pick_mod(rng, k) {
                            v.push(m);
                        } else {
                            v.push(rng.below(3)); // nothing exists: importing a missing module
                        }
                    }
                    if rng.chance(1, 12) {
                        v.push(maxm + 1); // never defined
                    }
                    v
                };
                let same_name = if script.is_some() { true } else { rng.chance(1, 2) };
                for &m in &subset {
                    evaluated.insert(m);
                    // everything reachable counts as evaluated
                    let mut todo = vec![m];
                    while let Some(x) = todo.pop() {
                        if let Some(mm) = mods.get(&x) {
                            for &d in &mm.imports {
                                if evaluated.insert(d) {
                                    todo.push(d);
                                }
                            }
                        }
                    }
                }
                let name = if same_name { "c15eval".to_string() } else { format!("c15eval{}", k) };
                steps.push(json!({"op": "eval", "name": name, "src": eval_src(&subset, script.is_some() || rng.chance(2, 3)), "mods": subset}));
            }
            // add a module
            3 if script.is_none() => {
                if mods.len() < maxm {
                    let i = (0..maxm).find(|i| !mods.contains_key(i)).unwrap();
                    let mut imports: Vec<usize> = existing.iter().cloned().filter(|_| rng.chance(2, 5)).collect();
                    if rng.chance(1, 10) {
                        // import something that does not exist (yet)
                        if let Some(miss) = (0..maxm).find(|j| !mods.contains_key(j) && *j != i) {
                            imports.push(miss);
                        }
                    }
                    let uses = fresh_uses(rng, &mods, &imports);
                    let vty = *rng.pick(&[VTy::Int, VTy::Int, VTy::Str, VTy::Float]);
                    let tdef = if rng.chance(1, 3) { Some(rng.below(2) as u32) } else { None };
                    mods.insert(i, Mod { ver: 0, imports, vty, tdef, uses });
                    if evaluated.contains(&i) {
                        changed_after_eval = true;
                    }
                    push_src(&mut steps, &mods, i, load, "add");
                }
            }
            // change a value (scripted 3/4/5: change value of m0/m1/m2)
            3 | 4 | 5 | 6 => {
                let target = if script.is_some() { Some((choice - 3) as usize).filter(|t| *t < 3) } else { pick_mod(rng, k) };
                if let Some(i) = target {
                    mods.get_mut(&i).unwrap().ver += 1;
                    if evaluated.contains(&i) {
                        changed_after_eval = true;
                    }
                    push_src(&mut steps, &mods, i, load, "value");
                } else if script.is_some() {
                    // scripted 6: change m0's value type
                    let m = mods.get_mut(&0).unwrap();
                    m.ver += 1;
                    m.vty = if m.vty == VTy::Int { VTy::Str } else { VTy::Int };
                    changed_after_eval |= evaluated.contains(&0);
                    push_src(&mut steps, &mods, 0, false, "type");
                }
            }
            // change the type of v / the exported type definition
            7 | 8 => {
                let target = if script.is_some() { Some(if choice == 7 { 1 } else { 0 }) } else { pick_mod(rng, k) };
                if let Some(i) = target {
                    let m = mods.get_mut(&i).unwrap();
                    m.ver += 1;
                    if choice == 8 && m.tdef.is_some() {
                        m.tdef = Some(m.tdef.unwrap() + 1);
                    } else {
                        m.vty = match m.vty {
                            VTy::Int => VTy::Str,
                            VTy::Str => VTy::Float,
                            VTy::Float => VTy::Int,
                        };
                    }
                    if evaluated.contains(&i) {
                        changed_after_eval = true;
                    }
                    push_src(&mut steps, &mods, i, load, "type");
                }
            }
            // add / remove an import edge, no cycle (scripted 9: toggle m2 -> m1)
            9 => {
                let target = if script.is_some() { Some(2) } else { pick_mod(rng, k) };
                if let Some(i) = target {
                    let cands: Vec<usize> = existing.iter().cloned().filter(|&j| j != i).collect();
                    let j = if script.is_some() { Some(1) } else if cands.is_empty() { None } else { Some(cands[rng.below(cands.len())]) };
                    if let Some(j) = j {
                        let had = mods[&i].imports.contains(&j);
                        let jt = mods[&j].vty;
                        {
                            let m = mods.get_mut(&i).unwrap();
                            m.ver += 1;
                            if had {
                                m.imports.retain(|&x| x != j);
                                m.uses.retain(|u| u.0 != j);
                            } else {
                                m.imports.push(j);
                                if script.is_none() && rng.chance(1, 2) {
                                    m.uses.push((j, jt));
                                }
                            }
                        }
                        if !had && has_cycle_from(&mods, i).is_some() && script.is_none() && rng.chance(2, 3) {
                            // keep it acyclic most of the time here; cycles have their own step
                            let m = mods.get_mut(&i).unwrap();
                            m.imports.retain(|&x| x != j);
                            m.uses.retain(|u| u.0 != j);
                        }
                        if evaluated.contains(&i) {
                            changed_after_eval = true;
                        }
                        push_src(&mut steps, &mods, i, load, "edge");
                    }
                }
            }
            // introduce a cycle (scripted 10: toggle m0 -> m2, which closes m0 -> m2 -> m0)
            10 | 11 => {
                if script.is_some() {
                    let had = mods[&0].imports.contains(&2);
                    let m = mods.get_mut(&0).unwrap();
                    m.ver += 1;
                    if had {
                        m.imports.retain(|&x| x != 2);
                    } else {
                        m.imports.push(2);
                    }
                    changed_after_eval |= evaluated.contains(&0);
                    push_src(&mut steps, &mods, 0, false, "cycle-toggle");
                } else if existing.len() >= 1 {
                    // find (i, j) with j reaching i (or i == j): adding i -> j... we need an edge
                    // from a module to one of its importers
                    let i = existing[rng.below(existing.len())];
                    let importers: Vec<usize> = existing.iter().cloned().filter(|&j| mods[&j].imports.contains(&i) || j == i).collect();
                    let j = importers[rng.below(importers.len())];
                    let m = mods.get_mut(&i).unwrap();
                    if !m.imports.contains(&j) {
                        m.imports.push(j);
                    }
                    m.ver += 1;
                    if evaluated.contains(&i) {
                        changed_after_eval = true;
                    }
                    push_src(&mut steps, &mods, i, load, "cycle");
                }
            }
            // repair: rewrite importers whose assumptions about their dependencies are out of
            // date, and drop imports of modules that do not exist
            13 => {
                let snapshot: BTreeMap<usize, VTy> = mods.iter().map(|(i, m)| (*i, m.vty)).collect();
                for &i in &existing {
                    let m = mods.get_mut(&i).unwrap();
                    let before = (m.imports.clone(), m.uses.iter().map(|u| (u.0, u.1 as u8)).collect::<Vec<_>>());
                    m.imports.retain(|d| snapshot.contains_key(d));
                    m.uses.retain(|u| snapshot.contains_key(&u.0));
                    for u in &mut m.uses {
                        u.1 = snapshot[&u.0];
                    }
                    let after = (m.imports.clone(), m.uses.iter().map(|u| (u.0, u.1 as u8)).collect::<Vec<_>>());
                    if before != after {
                        m.ver += 1;
                        if evaluated.contains(&i) {
                            changed_after_eval = true;
                        }
                        push_src(&mut steps, &mods, i, load, "repair");
                    }
                }
            }
            // remove cycles: drop offending edges
            _ => {
                let mut did = false;
                for &i in &existing {
                    while let Some(c) = has_cycle_from(&mods, i) {
                        let a = c[c.len() - 1];
                        let b = c[0];
                        let m = mods.get_mut(&a).unwrap();
                        m.imports.retain(|&x| x != b);
                        m.uses.retain(|u| u.0 != b);
                        m.ver += 1;
                        if evaluated.contains(&a) {
                            changed_after_eval = true;
                        }
                        push_src(&mut steps, &mods, a, load, "uncycle");
                        did = true;
                    }
                }
                if !did {
                    if let Some(i) = pick_mod(rng, k) {
                        mods.get_mut(&i).unwrap().ver += 1;
                        if evaluated.contains(&i) {
                            changed_after_eval = true;
                        }
                        push_src(&mut steps, &mods, i, load, "value");
                    }
                }
            }
        }
    }
    // always end with evaluations of everything, one module at a time and then together
    let all: Vec<usize> = mods.keys().cloned().collect();
    if !all.is_empty() {
        steps.push(json!({"op": "eval", "name": "c15final", "src": eval_src(&all, true), "mods": all}));
        let last = *all.last().unwrap();
        steps.push(json!({"op": "eval", "name": "c15final2", "src": eval_src(&[last], true), "mods": [last]}));
    }
    // cycle membership per module at the end is recomputed at run time from the sources
    json!({"steps": steps, "changed_after_eval": changed_after_eval})
}

fn new_plain_vm() -> gluon::RootedThread {
    let mut s = Settings::PLAIN;
    s.prelude = false;
    let vm = vm_with(s);
    crate::fx::register(&vm);
    vm
}

/// import edges as written in a module source
fn imports_of(src: &str) -> Vec<usize> {
    src.lines().filter_map(|l| l.split("import! c15m").nth(1)).filter_map(|r| r.trim().parse().ok()).collect()
}

fn cycle_members(latest: &BTreeMap<usize, String>, roots: &[usize]) -> Option<Vec<usize>> {
    let mut mods = BTreeMap::new();
    for (i, s) in latest {
        mods.insert(*i, Mod { ver: 0, imports: imports_of(s), vty: VTy::Int, tdef: None, uses: vec![] });
    }
    for &r in roots {
        if let Some(c) = has_cycle_from(&mods, r) {
            return Some(c);
        }
    }
    None
}

/// `... cyclic dependency: `a -> b -> a`` => [a, b, a] (module indexes)
fn cycle_path(text: &str) -> Option<Vec<usize>> {
    let i = text.find("occurs in a cyclic dependency: `")?;
    let rest = &text[i + "occurs in a cyclic dependency: `".len()..];
    let end = rest.find('`')?;
    rest[..end].split("->").map(|m| m.trim().strip_prefix("c15m").and_then(|n| n.parse().ok())).collect()
}

/// The property asks for an error "naming the cycle": every module the message names must lie on
/// one cycle of the latest graph (mutually reachable through at least one edge) and the path must
/// close. Which modules of the cycle are spelled out depends on what is already cached.
fn valid_cycle(latest: &BTreeMap<usize, String>, path: &[usize]) -> bool {
    if path.len() < 2 || path[0] != path[path.len() - 1] {
        return false;
    }
    let reach = |from: usize, to: usize| -> bool {
        let mut seen = BTreeSet::new();
        let mut todo: Vec<usize> = latest.get(&from).map(|s| imports_of(s)).unwrap_or_default();
        while let Some(x) = todo.pop() {
            if x == to {
                return true;
            }
            if seen.insert(x) {
                todo.extend(latest.get(&x).map(|s| imports_of(s)).unwrap_or_default());
            }
        }
        false
    };
    path.windows(2).all(|w| reach(w[0], w[1]))
}

fn outcome_key(o: &Outcome) -> String {
    match o {
        Outcome::Value(v, t) => format!("value {} : {}", v, t),
        Outcome::Error(c, m) => format!("error[{}] {}", c, m),
    }
}

fn load_outcome(vm: &gluon::Thread, name: &str, src: &str) -> Outcome {
    match vm.load_script(name, src) {
        Ok(()) => Outcome::Value("loaded".into(), String::new()),
        Err(e) => {
            let (c, m) = classify_error(&e);
            Outcome::Error(c, m)
        }
    }
}

impl Worker for W {
    fn gen(&mut self, rng: &mut Rng, idx: u64) -> Option<Value> {
        if self.exhaustive {
            let maxl = self.tier.pick(4, 5);
            let mut idx = idx;
            let mut len = 1u32;
            loop {
                let n = 11u64.pow(len);
                if idx < n {
                    break;
                }
                idx -= n;
                len += 1;
                if len > maxl {
                    return None;
                }
            }
            let mut script = Vec::new();
            for _ in 0..len {
                script.push((idx % 11) as u32);
                idx /= 11;
            }
            // a history without any evaluation before its last edit still gets the final evals
            Some(gen_history(rng, Some(script)))
        } else {
            Some(gen_history(rng, None))
        }
    }

    fn run(&mut self, case: &Value) -> CaseResult {
        let mut r = run_history(case, false);
        if r.verdict == Verdict::Violation {
            // Attribution for the listed finding F45 (a module added after a failed import of it
            // stays "not found"): re-run the history with every first definition of a module
            // followed by a no-op content change (text + newline, then the text again), which
            // goes through the invalidating path. If the history then agrees with the fresh VM
            // the violation is exactly that defect; anything else stays unlisted.
            let n = run_history(case, true);
            if n.verdict == Verdict::Ok {
                r.sig["neutralised_by"] = json!("touch-after-first-add");
            }
        }
        r
    }
}

fn run_history(case: &Value, neutralise: bool) -> CaseResult {
    {
        let steps = match case["steps"].as_array() {
            Some(s) => s.clone(),
            None => return CaseResult::inconclusive(0, "bad case"),
        };
        let hash = hash_str(&case["steps"].to_string());
        let vm = new_plain_vm();
        let mut latest: BTreeMap<usize, String> = BTreeMap::new();
        let _ = crate::fx::take_log();
        let mut res = CaseResult::ok(hash, case["changed_after_eval"].as_bool().unwrap_or(false));
        let mut runs_since_change: BTreeMap<i64, u32> = BTreeMap::new();
        let mut evals = 0u64;
        let mut cyc_evals = 0u64;
        let mut err_evals = 0u64;
        let mut body_runs = 0u64;
        for (k, st) in steps.iter().enumerate() {
            let op = st["op"].as_str().unwrap_or("");
            let src = st["src"].as_str().unwrap_or("");
            // what a fresh VM given the latest sources says
            let fresh = |latest: &BTreeMap<usize, String>, f: &dyn Fn(&gluon::Thread) -> Outcome| -> Outcome {
                let fvm = new_plain_vm();
                for (i, s) in latest {
                    fvm.get_database_mut().add_module(mname(*i), s);
                }
                let o = f(&fvm);
                let _ = crate::fx::take_log();
                o
            };
            let (got, want, roots): (Outcome, Outcome, Vec<usize>) = match op {
                "set" => {
                    let i = st["m"].as_u64().unwrap_or(0) as usize;
                    if latest.get(&i).map(|s| s.as_str()) != Some(src) {
                        runs_since_change.clear();
                    }
                    let first = !latest.contains_key(&i);
                    latest.insert(i, src.to_string());
                    vm.get_database_mut().add_module(mname(i), src);
                    if neutralise && first {
                        vm.get_database_mut().add_module(mname(i), &format!("{}\n", src));
                        vm.get_database_mut().add_module(mname(i), src);
                    }
                    continue;
                }
                "load" => {
                    let i = st["m"].as_u64().unwrap_or(0) as usize;
                    if latest.get(&i).map(|s| s.as_str()) != Some(src) {
                        runs_since_change.clear();
                    }
                    let first = !latest.contains_key(&i);
                    latest.insert(i, src.to_string());
                    let name = mname(i);
                    if neutralise && first {
                        vm.get_database_mut().add_module(mname(i), src);
                        vm.get_database_mut().add_module(mname(i), &format!("{}\n", src));
                        vm.get_database_mut().add_module(mname(i), src);
                    }
                    let got = load_outcome(&vm, &name, src);
                    let long_log = crate::fx::take_log();
                    let want = fresh(&latest, &|f| load_outcome(f, &name, src));
                    for (n, v) in long_log {
                        if n == "loaded" {
                            *runs_since_change.entry(v / 1000).or_insert(0) += 1;
                            body_runs += 1;
                        }
                    }
                    (got, want, vec![i])
                }
                "eval" => {
                    let name = st["name"].as_str().unwrap_or("c15eval");
                    let got = run_program(&vm, name, src);
                    let long_log = crate::fx::take_log();
                    let want = fresh(&latest, &|f| run_program(f, name, src));
                    for (n, v) in long_log {
                        if n == "loaded" {
                            *runs_since_change.entry(v / 1000).or_insert(0) += 1;
                            body_runs += 1;
                        }
                    }
                    let roots = st["mods"].as_array().map(|a| a.iter().filter_map(|x| x.as_u64().map(|x| x as usize)).collect()).unwrap_or_default();
                    (got, want, roots)
                }
                _ => continue,
            };
            evals += 1;
            if let Some((m, c)) = runs_since_change.iter().find(|(_, c)| **c > 1) {
                return CaseResult::violation(
                    hash,
                    format!("step {}: the body of module c15m{} ran {} times without any source change in between", k, m, c),
                    json!({"kind": "module-evaluated-twice", "step_op": op}),
                );
            }
            let (mut g, mut w) = (outcome_key(&got), outcome_key(&want));
            // A cycle may be entered at different modules depending on what is cached: the path
            // text is judged by itself (it must be a cycle of the latest graph), not by equality
            for (side, text) in [("long-lived", &mut g), ("fresh", &mut w)] {
                if let Some(path) = cycle_path(text) {
                    if !valid_cycle(&latest, &path) {
                        if side == "long-lived" {
                            return CaseResult::violation(
                                hash,
                                format!("step {}: the reported cycle {:?} is not a cycle of the latest sources: {}", k, path, text),
                                json!({"kind": "reported-cycle-not-in-latest-sources", "step_op": op}),
                            );
                        } else {
                            return CaseResult::violation(
                                hash,
                                format!("step {}: a fresh VM reports the cycle {:?}, which is not a cycle of the sources: {}", k, path, text),
                                json!({"kind": "fresh-vm-reports-wrong-cycle", "step_op": op}),
                            );
                        }
                    }
                    *text = "error: cyclic dependency (path valid)".to_string();
                    res.stat("cycle_paths_validated", 1);
                }
            }
            // Sources with several independent problems (a cycle and a missing module, say) may
            // report them in a different order depending on what is cached. When both VMs fail
            // with different messages, the long-lived VM's message is accepted iff it is a true
            // statement about the latest sources that can be checked here: a validated cycle
            // or a missing module that really is missing.
            if g != w && matches!((&got, &want), (Outcome::Error(..), Outcome::Error(..))) {
                let truly_missing = g.split("Could not find module 'c15m").nth(1).and_then(|r| r.split('\'').next()).and_then(|n| n.parse::<usize>().ok()).map_or(false, |m| !latest.contains_key(&m));
                if g.starts_with("error: cyclic dependency (path valid)") || truly_missing {
                    res.stat("different_first_error_but_true_of_latest_sources", 1);
                    g = w.clone();
                }
            }
            if g != w {
                let kind = match (&got, &want) {
                    (Outcome::Value(..), Outcome::Value(..)) => "stale-value",
                    (Outcome::Value(..), Outcome::Error(..)) => "stale-success",
                    (Outcome::Error(..), Outcome::Value(..)) => "stale-error",
                    (Outcome::Error(a, _), Outcome::Error(b, _)) if a != b => "different-error-class",
                    _ => "different-error-text",
                };
                let what: Vec<String> = steps[..=k].iter().map(|s| format!("{}{}", s["op"].as_str().unwrap_or(""), s["what"].as_str().map(|w| format!(":{}:m{}", w, s["m"])).unwrap_or_default())).collect();
                return CaseResult::violation(
                    hash,
                    format!("step {} ({}): long-lived VM says `{}`, a fresh VM with the latest sources says `{}`; history {:?}", k, op, g, w, what),
                    json!({"kind": kind, "step_op": op, "fresh": w.split_whitespace().next().unwrap_or("")}),
                );
            }
            if let Outcome::Error(_, m) = &got {
                err_evals += 1;
                let _ = m;
            }
            if let Some(cyc) = cycle_members(&latest, &roots) {
                cyc_evals += 1;
                match &got {
                    Outcome::Value(..) => {
                        return CaseResult::violation(hash, format!("step {}: evaluation over an import cycle {:?} succeeded", k, cyc), json!({"kind": "cycle-not-reported"}));
                    }
                    Outcome::Error(_, msg) => {
                        // full text, not only the first line
                        let full = match op {
                            "eval" => vm.run_expr::<gluon::vm::api::OpaqueValue<&gluon::Thread, gluon::vm::api::Hole>>(st["name"].as_str().unwrap_or("c15eval"), src).err().map(|e| e.to_string()).unwrap_or_default(),
                            _ => msg.clone(),
                        };
                        let _ = crate::fx::take_log();
                        let names_cycle = cyc.iter().any(|m| full.contains(&mname(*m)));
                        if !(full.to_lowercase().contains("cycl") && names_cycle) && !full.is_empty() {
                            // a missing module or a type error elsewhere may legitimately be
                            // reported first; only flag when no cycle is named although nothing
                            // else is wrong: decided by the fresh VM agreeing (above) plus this
                            res.stat("cycle_evaluations_reporting_another_error_first", 1);
                        } else {
                            res.stat("cycle_errors_naming_the_cycle", 1);
                        }
                    }
                }
            }
        }
        if evals == 0 {
            return CaseResult::skip("no evaluation in history");
        }
        res.stat("steps", steps.len() as u64);
        res.stat("evaluations_compared_with_fresh_vm", evals);
        res.stat("evaluations_over_a_cycle", cyc_evals);
        res.stat("evaluations_ending_in_error", err_evals);
        res.stat("module_body_runs_observed", body_runs);
        for st in &steps {
            if let Some(w) = st["what"].as_str() {
                res.feat(format!("{}-{}", st["op"].as_str().unwrap_or(""), w));
            }
        }
        res
    }
}

pub fn dbg_main() {
    use gluon::query::*;
    let vm = new_plain_vm();
    let r = run_program(&vm, "e1", "let m = import! c15m0\nm.n\n");
    println!("{:?}", r);
    let db = vm.get_database();
    let c: &dyn Compilation = &*db;
    println!("module_text peek: {:?}", ModuleTextQuery.in_db(c).peek(&"c15m0".to_string()).map(|r| r.is_ok()));
    println!("typechecked peek: {:?}", TypecheckedSourceModuleQuery.in_db(c).peek(&("c15m0".to_string(), None)).map(|r| r.is_ok()));
    println!("import peek: {:?}", ImportQuery.in_db(c).peek(&"c15m0".to_string()).map(|r| r.is_ok()));
}
