//! Known findings: read-only list of genuine defects recorded instead of repaired.
use serde_json::Value;

#[derive(Clone, Debug)]
pub struct Finding {
    pub id: String,
    pub property: String,
    pub status: String,
    pub what: String,
    pub signature: Value,
}

pub fn load() -> Vec<Finding> {
    let path = format!("{}/known_findings.json", crate::verif_dir());
    let text = match std::fs::read_to_string(&path) {
        Ok(t) => t,
        Err(_) => return Vec::new(),
    };
    let v: Value = serde_json::from_str(&text).expect("known_findings.json must be valid JSON");
    v.as_array()
        .expect("known_findings.json must be an array")
        .iter()
        .map(|f| Finding {
            id: f["id"].as_str().unwrap_or("").to_string(),
            property: f["property"].as_str().unwrap_or("").to_string(),
            status: f["status"].as_str().unwrap_or("known").to_string(),
            what: f["what"].as_str().unwrap_or("").to_string(),
            signature: f["signature"].clone(),
        })
        .collect()
}

fn value_matches(pat: &Value, got: &Value) -> bool {
    match pat {
        // a list in the finding = any of
        Value::Array(alts) if !got.is_array() => alts.iter().any(|a| value_matches(a, got)),
        Value::String(p) if p.starts_with("~") => got.as_str().map_or(false, |g| g.contains(&p[1..])),
        _ => pat == got,
    }
}

/// A violation signature matches a finding when every member of the finding's signature is
/// present and equal in the violation's signature. Only `status == "known"` entries suppress.
pub fn matches<'a>(fs: &'a [Finding], property: &str, sig: &Value) -> Option<&'a Finding> {
    let sig = sig.as_object()?;
    fs.iter().find(|f| {
        f.status == "known"
            && f.property == property
            && f.signature.as_object().map_or(false, |pat| {
                !pat.is_empty() && pat.iter().all(|(k, v)| sig.get(k).map_or(false, |g| value_matches(v, g)))
            })
    })
}
