//! Supervisor: runs workers as child processes, detects death and hangs, aggregates results,
//! writes evidence and replay files, prints KNOWN-FINDING / VIOLATION lines.
use crate::findings;
use crate::prop::*;
use crate::worker::MAGIC;
use serde_json::{json, Map, Value};
use std::collections::{BTreeMap, HashSet};
use std::io::{BufRead, BufReader, Read};
use std::process::{Command, Stdio};
use std::sync::atomic::{AtomicBool, Ordering};
use std::sync::{Arc, Mutex};
use std::time::{Duration, Instant};

#[derive(Default)]
struct PhaseAgg {
    executed: u64,
    ok: u64,
    skipped: u64,
    inconclusive: u64,
    violations: u64,
    deaths: u64,
    timeouts: u64,
    not_run: u64,
    harness_errors: u64,
    wall_s: f64,
}

#[derive(Default)]
struct Agg {
    phases: BTreeMap<String, PhaseAgg>,
    nontrivial: HashSet<u64>,
    stats: BTreeMap<String, u64>,
    features: BTreeMap<String, u64>,
    samples: Vec<Value>,
    inconclusive_samples: Vec<String>,
    /// (phase, build, idx, case, result)
    viols: Vec<(String, String, u64, Value, CaseResult)>,
    /// finding id -> (what, witnesses this run); matched when recorded so that a flood of known
    /// witnesses cannot crowd out unlisted violations
    known_hits: BTreeMap<String, (String, u64)>,
    fatal: Vec<String>,
}

fn worker_exe(build: Build) -> Option<String> {
    let base = format!("{}/harness/target", crate::verif_dir());
    let p = match build {
        Build::Debug => return std::env::current_exe().ok().map(|p| p.to_string_lossy().to_string()),
        Build::Asan => format!("{}/asan/x86_64-unknown-linux-gnu/debug/gv", base),
        Build::Tsan => format!("{}/tsan/x86_64-unknown-linux-gnu/debug/gv", base),
        Build::Release => format!("{}/release/gv", base),
    };
    if std::path::Path::new(&p).exists() {
        Some(p)
    } else {
        None
    }
}

fn truncate(s: &str, n: usize) -> String {
    if s.len() <= n {
        s.to_string()
    } else {
        let mut end = n;
        while !s.is_char_boundary(end) {
            end -= 1;
        }
        format!("{}…", &s[..end])
    }
}

fn trim_case(v: &Value) -> Value {
    match v {
        Value::String(s) => Value::String(truncate(s, 1500)),
        Value::Array(a) => Value::Array(a.iter().take(40).map(trim_case).collect()),
        Value::Object(o) => Value::Object(o.iter().map(|(k, v)| (k.clone(), trim_case(v))).collect()),
        _ => v.clone(),
    }
}

/// Parses the interesting part of a dead worker's stderr
pub fn death_signature(stderr: &str, status: &std::process::ExitStatus, case: &Value) -> (String, Value) {
    use std::os::unix::process::ExitStatusExt;
    let signal = status.signal();
    // only what the worker printed since it started the case that killed it
    let stderr = match stderr.rfind("GV-CASE-START") {
        Some(i) => &stderr[i..],
        None => stderr,
    };
    let mut kind = "crash".to_string();
    let mut detail = String::new();
    let mut location = String::new();
    // sanitizer report
    if let Some(pos) = stderr.find("ERROR: AddressSanitizer:").or_else(|| stderr.find("WARNING: ThreadSanitizer:")) {
        kind = "sanitizer".to_string();
        let rep = &stderr[pos..];
        detail = rep.lines().next().unwrap_or("").to_string();
        let what = detail.split(':').nth(2).unwrap_or("").trim().split(' ').next().unwrap_or("").to_string();
        // first in-repo frame
        for l in rep.lines() {
            if let Some(i) = l.find("/repo/") {
                location = l[i + 6..].split(|c: char| c == ')' || c == ' ').next().unwrap_or("").to_string();
                // strip column
                let parts: Vec<&str> = location.split(':').collect();
                if parts.len() >= 2 {
                    location = format!("{}:{}", parts[0], parts[1]);
                }
                break;
            }
        }
        let sig = crate::worker::merge_key(json!({"kind": kind, "error": what, "location": location}), case);
        return (format!("{} (first repo frame {})", detail, location), sig);
    }
    let mut panic_msg = String::new();
    let mut first_repo_panic: Option<(String, String)> = None;
    for l in stderr.lines() {
        if let Some(rest) = l.strip_prefix("PANIC at ") {
            // the last panic printed is the one that killed the process (earlier ones were caught)
            let (loc, msg) = rest.split_once(": ").unwrap_or((rest, ""));
            location = crate::worker::strip_repo(loc);
            panic_msg = msg.to_string();
            if first_repo_panic.is_none() && loc.starts_with("/repo/") {
                first_repo_panic = Some((location.clone(), panic_msg.clone()));
            }
        }
        if l.contains("has overflowed its stack") {
            kind = "native-stack-overflow".to_string();
        }
        if l.contains("panic in a function that cannot unwind") || l.contains("non-unwinding panic") {
            kind = "abort-nounwind-panic".to_string();
        }
        if l.contains("memory allocation of") {
            kind = "alloc-failure".to_string();
        }
    }
    // a panic that cannot unwind (or a poisoned lock) is the consequence; the first panic inside
    // the repository during this case is the cause
    if kind == "abort-nounwind-panic" || panic_msg.contains("PoisonError") {
        if let Some((l, m)) = first_repo_panic {
            location = l;
            panic_msg = m;
        }
    }
    detail.push_str(&format!("worker died: signal={:?} code={:?} kind={}", signal, status.code(), kind));
    if !location.is_empty() {
        detail.push_str(&format!(" panic at {}: {}", location, panic_msg));
    }
    let sig = crate::worker::merge_key(
        json!({"kind": kind, "signal": signal, "location": location, "panic": truncate(&panic_msg, 120)}),
        case,
    );
    (detail, sig)
}

struct Shared {
    agg: Mutex<Agg>,
    stop: AtomicBool,
    known: Vec<findings::Finding>,
    prop_id: String,
}

#[allow(clippy::too_many_arguments)]
fn run_shard(
    prop: &dyn Prop,
    tier: Tier,
    seed: u64,
    phase: &Phase,
    exe: &str,
    shard: u64,
    nshards: u64,
    shared: &Shared,
    deadline: Instant,
) {
    let run_dir = format!("{}/harness/target/run/{}", crate::verif_dir(), prop.id());
    let _ = std::fs::create_dir_all(&run_dir);
    let mut from = 0u64;
    let mut restarts_without_progress = 0;
    loop {
        if shared.stop.load(Ordering::SeqCst) || Instant::now() >= deadline {
            // count what is left
            let left = (from..phase.cases).filter(|i| i % nshards == shard).count() as u64;
            shared.agg.lock().unwrap().phases.entry(phase.name.into()).or_default().not_run += left;
            return;
        }
        let err_path = format!("{}/{}-{}-{}.err", run_dir, phase.name, phase.build.name(), shard);
        let err_file = std::fs::File::create(&err_path).expect("create stderr file");
        let mut cmd = Command::new(exe);
        cmd.arg("worker")
            .arg(prop.id())
            .args(["--tier", tier.name()])
            .args(["--seed", &seed.to_string()])
            .args(["--phase", phase.name])
            .args(["--build", phase.build.name()])
            .args(["--shard", &shard.to_string()])
            .args(["--nshards", &nshards.to_string()])
            .args(["--from", &from.to_string()])
            .args(["--cases", &phase.cases.to_string()])
            .stdin(Stdio::null())
            .stdout(Stdio::piped())
            .stderr(Stdio::from(err_file))
            .env("RUST_BACKTRACE", "0")
            .env("ASAN_OPTIONS", "detect_leaks=0:abort_on_error=1:symbolize=1:allocator_may_return_null=1")
            .env("TSAN_OPTIONS", "halt_on_error=1:abort_on_error=1:second_deadlock_stack=1")
            .env("ASAN_SYMBOLIZER_PATH", "/usr/bin/llvm-symbolizer-14")
            .env("TSAN_SYMBOLIZER_PATH", "/usr/bin/llvm-symbolizer-14");
        let mut child = cmd.spawn().expect("spawn worker");
        let pid = child.id();
        let stdout = child.stdout.take().unwrap();
        // in-flight tracking shared with the watchdog
        let inflight: Arc<Mutex<Option<(u64, Value, Instant)>>> = Arc::new(Mutex::new(None));
        let killed_by_watchdog = Arc::new(AtomicBool::new(false));
        let finished = Arc::new(AtomicBool::new(false));
        let wd = {
            let inflight = inflight.clone();
            let killed = killed_by_watchdog.clone();
            let finished = finished.clone();
            let case_timeout = Duration::from_secs(phase.case_timeout_s);
            std::thread::spawn(move || loop {
                std::thread::sleep(Duration::from_millis(200));
                if finished.load(Ordering::SeqCst) {
                    return;
                }
                let over_case = inflight.lock().unwrap().as_ref().map_or(false, |(_, _, t)| t.elapsed() > case_timeout);
                if over_case || Instant::now() >= deadline {
                    killed.store(true, Ordering::SeqCst);
                    unsafe {
                        libc::kill(pid as i32, libc::SIGKILL);
                    }
                    return;
                }
            })
        };
        let mut done = false;
        let mut last_done_idx: Option<u64> = None;
        let mut exit_requested = false;
        let reader = BufReader::new(stdout);
        for line in reader.split(b'\n') {
            let line = match line {
                Ok(l) => l,
                Err(_) => break,
            };
            let line = String::from_utf8_lossy(&line);
            let Some(rest) = line.strip_prefix(MAGIC) else { continue };
            let mut it = rest.splitn(3, ' ');
            let kind = it.next().unwrap_or("");
            let idx: u64 = it.next().and_then(|s| s.parse().ok()).unwrap_or(0);
            let payload: Value = serde_json::from_str(it.next().unwrap_or("null")).unwrap_or(Value::Null);
            match kind {
                "B" => {
                    *inflight.lock().unwrap() = Some((idx, payload, Instant::now()));
                }
                "K" => {
                    // extra signature members for the case in flight (used if the worker dies)
                    if let Some((_, c, _)) = inflight.lock().unwrap().as_mut() {
                        if let (Some(o), Some(add)) = (c.as_object_mut(), payload.as_object()) {
                            let key = o.entry("key").or_insert_with(|| json!({}));
                            if let Some(k) = key.as_object_mut() {
                                for (a, b) in add {
                                    k.insert(a.clone(), b.clone());
                                }
                            }
                        }
                    }
                }
                "E" => {
                    let case = inflight.lock().unwrap().take().map(|(_, c, _)| c).unwrap_or(Value::Null);
                    last_done_idx = Some(idx);
                    restarts_without_progress = 0;
                    if payload.get("exit").and_then(|e| e.as_bool()).unwrap_or(false) {
                        exit_requested = true;
                    }
                    let r = CaseResult::from_json(&payload);
                    record(shared, phase, idx, case, r);
                }
                "D" => {
                    done = true;
                    let mut agg = shared.agg.lock().unwrap();
                    if let Some(o) = payload.as_object() {
                        for (k, v) in o {
                            if let Some(n) = v.as_u64() {
                                *agg.stats.entry(k.clone()).or_default() += n;
                            }
                        }
                    }
                }
                _ => {}
            }
        }
        let status = child.wait().expect("wait worker");
        finished.store(true, Ordering::SeqCst);
        let _ = wd.join();
        if done {
            return;
        }
        let fl = inflight.lock().unwrap().take();
        let mut stderr = String::new();
        if let Ok(mut f) = std::fs::File::open(&err_path) {
            let _ = f.read_to_string(&mut stderr);
        }
        let tail: String = {
            let lines: Vec<&str> = stderr.lines().collect();
            lines[lines.len().saturating_sub(60)..].join("\n")
        };
        match fl {
            Some((idx, case, _)) => {
                from = idx + 1;
                restarts_without_progress = 0;
                if killed_by_watchdog.load(Ordering::SeqCst) {
                    if Instant::now() >= deadline {
                        // phase deadline: the case was not completed
                        shared.agg.lock().unwrap().phases.entry(phase.name.into()).or_default().not_run += 1;
                    } else {
                        // keep the case for inspection (it is not a verdict)
                        let dir = format!("{}/replays/{}", crate::verif_dir(), prop.id());
                        let _ = std::fs::create_dir_all(&dir);
                        let path = format!("{}/timeout-{}-{}.json", dir, phase.name, idx);
                        let doc = json!({"property": prop.id(), "tier": tier.name(), "seed": seed, "phase": phase.name, "build": phase.build.name(), "idx": idx, "case": case, "message": "wall-clock watchdog fired (inconclusive)", "signature": {"kind": "watchdog"}});
                        let _ = std::fs::write(&path, serde_json::to_string_pretty(&doc).unwrap());
                        let mut r = CaseResult::inconclusive(0, format!("wall-clock watchdog ({} s) fired; case kept in {}", phase.case_timeout_s, path));
                        r.stat("watchdog_timeouts", 1);
                        shared.agg.lock().unwrap().phases.entry(phase.name.into()).or_default().timeouts += 1;
                        record(shared, phase, idx, case, r);
                    }
                } else {
                    let (detail, sig) = death_signature(&stderr, &status, &case);
                    // the worker may declare that whatever happens in the stage it is in is another
                    // property's business (e.g. compiling the *source* in a bytecode check)
                    let foreign = sig.get("not_this_property").and_then(|v| v.as_bool()).unwrap_or(false);
                    let r = if prop.death_is_violation() && !foreign {
                        CaseResult::violation(crate::rng::hash_str(&case.to_string()), format!("{}\n--- stderr tail ---\n{}", detail, truncate(&tail, 3000)), sig)
                    } else {
                        CaseResult::inconclusive(0, detail)
                    };
                    shared.agg.lock().unwrap().phases.entry(phase.name.into()).or_default().deaths += 1;
                    record(shared, phase, idx, case, r);
                }
            }
            None => {
                if exit_requested {
                    from = last_done_idx.map_or(from, |i| i + 1);
                    continue;
                }
                if killed_by_watchdog.load(Ordering::SeqCst) && Instant::now() >= deadline {
                    from = last_done_idx.map_or(from, |i| i + 1);
                    continue;
                }
                // died outside a case: harness problem (init, generation)
                restarts_without_progress += 1;
                let mut agg = shared.agg.lock().unwrap();
                agg.phases.entry(phase.name.into()).or_default().harness_errors += 1;
                if restarts_without_progress >= 3 {
                    agg.fatal.push(format!(
                        "worker for phase {} shard {} died outside a case (status {:?}); stderr tail:\n{}",
                        phase.name, shard, status, truncate(&tail, 2000)
                    ));
                    shared.stop.store(true, Ordering::SeqCst);
                    return;
                }
                from = last_done_idx.map_or(from, |i| i + 1);
                // skip one index so a generator crash cannot loop forever
                if restarts_without_progress >= 2 {
                    from += 1;
                }
            }
        }
    }
}

fn record(shared: &Shared, phase: &Phase, idx: u64, case: Value, r: CaseResult) {
    let mut agg = shared.agg.lock().unwrap();
    for (k, v) in &r.stats {
        if let Some(n) = v.as_u64() {
            *agg.stats.entry(k.clone()).or_default() += n;
        }
    }
    for f in &r.features {
        *agg.features.entry(f.clone()).or_default() += 1;
    }
    let nsamples = agg.samples.iter().filter(|s| s["phase"] == phase.name).count();
    let p = agg.phases.entry(phase.name.into()).or_default();
    match r.verdict {
        Verdict::Skip => {
            p.skipped += 1;
            return;
        }
        Verdict::Ok => {
            p.executed += 1;
            p.ok += 1;
        }
        Verdict::Inconclusive => {
            p.executed += 1;
            p.inconclusive += 1;
        }
        Verdict::Violation => {
            p.executed += 1;
            p.violations += 1;
        }
    }
    if r.nontrivial {
        agg.nontrivial.insert(r.hash);
    }
    if r.verdict == Verdict::Ok && nsamples < 2 && r.nontrivial {
        agg.samples.push(json!({"phase": phase.name, "idx": idx, "case": trim_case(&case)}));
    }
    if r.verdict == Verdict::Inconclusive && agg.inconclusive_samples.len() < 10 {
        let m = format!("{}#{}: {}", phase.name, idx, truncate(&r.msg, 300));
        agg.inconclusive_samples.push(m);
    }
    if r.verdict == Verdict::Violation {
        if let Some(f) = findings::matches(&shared.known, &shared.prop_id, &r.sig) {
            let e = agg.known_hits.entry(f.id.clone()).or_insert((f.what.clone(), 0));
            e.1 += 1;
        } else if agg.viols.len() < 5000 {
            agg.viols.push((phase.name.to_string(), phase.build.name().to_string(), idx, case, r));
        }
    }
}

pub fn run_property(prop: &dyn Prop, tier: Tier, seed: u64) -> i32 {
    let start = Instant::now();
    let shared = Shared { agg: Mutex::new(Agg::default()), stop: AtomicBool::new(false), known: findings::load(), prop_id: prop.id().to_string() };
    let phases = prop.phases(tier);
    let only_phase = std::env::var("GV_PHASE").ok();
    let mut build_missing = Vec::new();
    for phase in &phases {
        if let Some(p) = &only_phase {
            if p != phase.name {
                continue;
            }
        }
        let Some(exe) = worker_exe(phase.build) else {
            build_missing.push(format!("{} ({})", phase.name, phase.build.name()));
            continue;
        };
        let pstart = Instant::now();
        let deadline = pstart + Duration::from_secs(phase.phase_timeout_s);
        let n = (phase.workers as u64).min(phase.cases.max(1)).max(1);
        std::thread::scope(|s| {
            for shard in 0..n {
                let shared = &shared;
                let exe = &exe;
                s.spawn(move || run_shard(prop, tier, seed, phase, exe, shard, n, shared, deadline));
            }
        });
        let mut agg = shared.agg.lock().unwrap();
        agg.phases.entry(phase.name.into()).or_default().wall_s = pstart.elapsed().as_secs_f64();
        if shared.stop.load(Ordering::SeqCst) {
            break;
        }
    }
    let agg = shared.agg.into_inner().unwrap();
    finish(prop, tier, seed, &phases, agg, build_missing, start.elapsed().as_secs_f64())
}

fn finish(prop: &dyn Prop, tier: Tier, seed: u64, phases: &[Phase], agg: Agg, build_missing: Vec<String>, wall_s: f64) -> i32 {
    let id = prop.id();
    let known = findings::load();
    let replay_dir = format!("{}/replays/{}", crate::verif_dir(), id);
    let mut known_hits: BTreeMap<String, (String, u64)> = agg.known_hits.clone();
    let mut unknown: Vec<String> = Vec::new();
    let mut unknown_sigs: BTreeMap<String, u64> = BTreeMap::new();
    for (phase, build, idx, case, r) in &agg.viols {
        if let Some(f) = findings::matches(&known, id, &r.sig) {
            let e = known_hits.entry(f.id.clone()).or_insert((f.what.clone(), 0));
            e.1 += 1;
            continue;
        }
        let sigkey = r.sig.to_string();
        let n = unknown_sigs.entry(sigkey).or_default();
        *n += 1;
        // at most 3 replay files per distinct signature, 40 in total
        if *n > 2 || unknown.len() >= 400 {
            continue;
        }
        let _ = std::fs::create_dir_all(&replay_dir);
        let path = format!("{}/{}-{}-{:016x}.json", replay_dir, phase, idx, r.hash);
        let doc = json!({
            "property": id, "tier": tier.name(), "seed": seed, "phase": phase, "build": build, "idx": idx,
            "case": case, "message": r.msg, "signature": r.sig,
        });
        let _ = std::fs::write(&path, serde_json::to_string_pretty(&doc).unwrap());
        unknown.push(path);
    }
    let total_unknown: u64 = unknown_sigs.values().sum();

    // ---- evidence
    let mut evaluations = 0u64;
    let mut inconclusive = 0u64;
    let mut phase_json = Map::new();
    let mut too_few = Vec::new();
    for ph in phases {
        let d = PhaseAgg::default();
        let p = agg.phases.get(ph.name).unwrap_or(&d);
        evaluations += p.executed;
        inconclusive += p.inconclusive;
        phase_json.insert(
            ph.name.to_string(),
            json!({
                "build": ph.build.name(), "planned_indexes": ph.cases, "executed": p.executed, "held": p.ok,
                "skipped": p.skipped, "inconclusive": p.inconclusive, "violations": p.violations,
                "worker_deaths": p.deaths, "watchdog_timeouts": p.timeouts, "not_run_deadline": p.not_run,
                "harness_errors": p.harness_errors, "exhaustive": ph.exhaustive && p.not_run == 0 && p.inconclusive == 0 && p.harness_errors == 0,
                "wall_s": (p.wall_s * 10.0).round() / 10.0,
            }),
        );
        let selected = std::env::var("GV_PHASE").map_or(true, |s| s == ph.name);
        if selected && p.executed < ph.min_cases && !build_missing.iter().any(|b| b.starts_with(ph.name)) {
            too_few.push(format!("phase {} executed {} < {}", ph.name, p.executed, ph.min_cases));
        }
    }
    let all_exhaustive = phases.iter().all(|ph| ph.exhaustive) && agg.phases.values().all(|p| p.not_run == 0);
    let mut feats: Vec<(&String, &u64)> = agg.features.iter().collect();
    feats.sort_by(|a, b| b.1.cmp(a.1).then(a.0.cmp(b.0)));
    let feats: Map<String, Value> = feats.into_iter().take(80).map(|(k, v)| (k.clone(), json!(v))).collect();
    let mut coverage = json!({
        "evaluations": evaluations,
        "distinct_nontrivial": agg.nontrivial.len(),
        "rule": prop.rule(),
        "samples": agg.samples,
        "exhaustive": all_exhaustive,
        "phases": phase_json,
        "observed": agg.stats,
        "features": feats,
        "inconclusive_cases": inconclusive,
        "inconclusive_samples": agg.inconclusive_samples,
        "known_findings_seen": known_hits.iter().map(|(k, v)| json!({"id": k, "hits": v.1})).collect::<Vec<_>>(),
        "unlisted_violations": total_unknown,
    });
    if prop.level() == "translation_validation" {
        coverage["programs"] = json!(agg.stats.get("programs").cloned().unwrap_or(evaluations));
        coverage["disagreements_checked"] = json!(agg.stats.get("disagreements_checked").cloned().unwrap_or(0));
    }
    if coverage["samples"].as_array().map_or(true, |a| a.is_empty()) {
        coverage["samples"] = json!([{"note": "no non-trivial held case was sampled"}]);
    }
    let evidence = json!({
        "property_id": id, "tier": tier.name(), "seed": seed, "level": prop.level(),
        "coverage": coverage, "assumptions": prop.assumptions(),
        "wall_s": (wall_s * 10.0).round() / 10.0, "violations": total_unknown,
    });
    let ev_dir = format!("{}/evidence", crate::verif_dir());
    let _ = std::fs::create_dir_all(&ev_dir);
    std::fs::write(format!("{}/{}.json", ev_dir, id), serde_json::to_string_pretty(&evidence).unwrap()).expect("write evidence");

    // ---- report
    println!(
        "{} {} seed={} evaluations={} distinct_nontrivial={} inconclusive={} wall={:.1}s",
        id, tier.name(), seed, evaluations, agg.nontrivial.len(), inconclusive, wall_s
    );
    for ph in phases {
        if let Some(p) = agg.phases.get(ph.name) {
            println!(
                "  phase {:<14} [{}] executed={} held={} skipped={} inconclusive={} violations={} deaths={} timeouts={} not_run={} {:.1}s",
                ph.name, ph.build.name(), p.executed, p.ok, p.skipped, p.inconclusive, p.violations, p.deaths, p.timeouts, p.not_run, p.wall_s
            );
        }
    }
    let obs: Vec<String> = agg.stats.iter().map(|(k, v)| format!("{}={}", k, v)).collect();
    println!("  observed: {}", obs.join(" "));
    for (fid, (what, n)) in &known_hits {
        println!("KNOWN-FINDING: property={} {} ({}; {} witnesses this run)", id, what, fid, n);
    }
    for (sig, n) in &unknown_sigs {
        println!("  unlisted violation signature x{}: {}", n, truncate(sig, 400));
    }
    for p in &unknown {
        println!("VIOLATION property={} replay={}", id, p);
    }
    if !unknown.is_empty() {
        return 1;
    }
    let mut harness_bad = false;
    for f in &agg.fatal {
        eprintln!("HARNESS-ERROR: {}", f);
        harness_bad = true;
    }
    for b in &build_missing {
        eprintln!("HARNESS-ERROR: worker binary for phase {} is missing (run ./check setup)", b);
        harness_bad = true;
    }
    for t in &too_few {
        eprintln!("HARNESS-ERROR: observed too little: {}", t);
        harness_bad = true;
    }
    if (agg.nontrivial.len() as u64) < prop.min_nontrivial(tier) && std::env::var("GV_PHASE").is_err() {
        eprintln!("HARNESS-ERROR: observed too little: {} distinct non-trivial cases < {}", agg.nontrivial.len(), prop.min_nontrivial(tier));
        harness_bad = true;
    }
    if harness_bad {
        // neither "held" nor "violated": the run is inconclusive and must not be read as a pass
        return 2;
    }
    0
}

/// Re-runs the single case of a replay file in a child process
pub fn replay(path: &str) -> i32 {
    let text = std::fs::read_to_string(path).expect("read replay file");
    let doc: Value = serde_json::from_str(&text).expect("replay file is JSON");
    let id = doc["property"].as_str().unwrap_or("").to_string();
    let build = match doc["build"].as_str().unwrap_or("debug") {
        "asan" => Build::Asan,
        "tsan" => Build::Tsan,
        "release" => Build::Release,
        _ => Build::Debug,
    };
    let Some(exe) = worker_exe(build) else {
        eprintln!("HARNESS-ERROR: worker binary for build {} missing", build.name());
        return 2;
    };
    let out = Command::new(exe)
        .args(["worker-one", path])
        .env("ASAN_OPTIONS", "detect_leaks=0:abort_on_error=1:symbolize=1")
        .env("ASAN_SYMBOLIZER_PATH", "/usr/bin/llvm-symbolizer-14")
        .output()
        .expect("spawn replay worker");
    let stdout = String::from_utf8_lossy(&out.stdout);
    let stderr = String::from_utf8_lossy(&out.stderr);
    let mut result = None;
    for l in stdout.lines() {
        if let Some(rest) = l.strip_prefix(MAGIC) {
            let mut it = rest.splitn(3, ' ');
            if it.next() == Some("E") {
                let _ = it.next();
                result = serde_json::from_str::<Value>(it.next().unwrap_or("null")).ok();
            }
        }
    }
    let r = match result {
        Some(v) => CaseResult::from_json(&v),
        None => {
            let (detail, sig) = death_signature(&stderr, &out.status, &doc["case"]);
            CaseResult::violation(0, detail, sig)
        }
    };
    println!("replay {}: verdict={:?}\n{}", path, r.verdict, r.msg);
    if r.verdict == Verdict::Violation {
        let known = findings::load();
        if let Some(f) = findings::matches(&known, &id, &r.sig) {
            println!("KNOWN-FINDING: property={} {} ({})", id, f.what, f.id);
            return 0;
        }
        println!("VIOLATION property={} replay={}", id, path);
        return 1;
    }
    0
}

/// Runs one case in a child process and returns its result (a death becomes a violation with the
/// death signature). Used by the reducer for cases that kill the process.
pub fn run_case_in_child(doc: &Value) -> CaseResult {
    let dir = format!("{}/harness/target/run", crate::verif_dir());
    let _ = std::fs::create_dir_all(&dir);
    let path = format!("{}/reduce-{}.json", dir, std::process::id());
    std::fs::write(&path, doc.to_string()).expect("write case");
    let exe = std::env::current_exe().unwrap();
    let out = Command::new(exe).args(["worker-one", &path]).env("RUST_BACKTRACE", "0").output().expect("spawn");
    let stdout = String::from_utf8_lossy(&out.stdout);
    let stderr = String::from_utf8_lossy(&out.stderr);
    for l in stdout.lines() {
        if let Some(rest) = l.strip_prefix(MAGIC) {
            let mut it = rest.splitn(3, ' ');
            if it.next() == Some("E") {
                let _ = it.next();
                if let Ok(v) = serde_json::from_str::<Value>(it.next().unwrap_or("null")) {
                    return CaseResult::from_json(&v);
                }
            }
        }
    }
    let (detail, sig) = death_signature(&stderr, &out.status, &doc["case"]);
    CaseResult::violation(0, detail, sig)
}
