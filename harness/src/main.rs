mod findings;
mod fx;
mod prop;
mod rng;
mod shape;
mod sup;
mod vmutil;
mod worker;
mod lang;
mod props;

use prop::*;

pub fn verif_dir() -> String {
    std::env::var("VERIF_DIR").unwrap_or_else(|_| "/verif".to_string())
}

fn arg<'a>(args: &'a [String], name: &str) -> Option<&'a str> {
    args.iter().position(|a| a == name).and_then(|i| args.get(i + 1)).map(|s| s.as_str())
}

fn parse_build(s: &str) -> Build {
    match s {
        "asan" => Build::Asan,
        "tsan" => Build::Tsan,
        "release" => Build::Release,
        _ => Build::Debug,
    }
}

fn main() {
    // generated programs nest deeply; gluon's passes and our own walkers recurse on the AST
    let t = std::thread::Builder::new().stack_size(1 << 30).spawn(real_main).expect("spawn main thread");
    match t.join() {
        Ok(()) => {}
        Err(_) => std::process::exit(101),
    }
}

fn real_main() {
    let args: Vec<String> = std::env::args().collect();
    if args.len() < 2 {
        eprintln!("usage: gv <Cxx> --tier quick|thorough [--seed N] | gv replay <path> | gv eval <file> [flags]");
        std::process::exit(2);
    }
    let tier = match arg(&args, "--tier").map(String::from).or_else(|| std::env::var("VERIF_TIER").ok()).as_deref() {
        Some("thorough") => Tier::Thorough,
        _ => Tier::Quick,
    };
    let seed: u64 = arg(&args, "--seed")
        .map(String::from)
        .or_else(|| std::env::var("VERIF_SEED").ok())
        .and_then(|s| s.parse().ok())
        .unwrap_or(1);
    match args[1].as_str() {
        "worker" => {
            let prop = props::lookup(&args[2]).expect("unknown property");
            let ctx = WorkerCtx {
                tier,
                seed,
                phase: arg(&args, "--phase").unwrap().to_string(),
                build: parse_build(arg(&args, "--build").unwrap_or("debug")),
            };
            let n = |k: &str| arg(&args, k).unwrap().parse::<u64>().unwrap();
            worker::worker_main(prop, ctx, n("--shard"), n("--nshards"), n("--from"), n("--cases"));
        }
        "worker-one" => {
            let text = std::fs::read_to_string(&args[2]).expect("read replay");
            let doc: serde_json::Value = serde_json::from_str(&text).unwrap();
            let prop = props::lookup(doc["property"].as_str().unwrap()).expect("unknown property");
            let ctx = WorkerCtx {
                tier: if doc["tier"] == "thorough" { Tier::Thorough } else { Tier::Quick },
                seed: doc["seed"].as_u64().unwrap_or(1),
                phase: doc["phase"].as_str().unwrap_or("").to_string(),
                build: parse_build(doc["build"].as_str().unwrap_or("debug")),
            };
            worker::install_panic_hook();
            let mut w = prop.worker(&ctx);
            let case = doc["case"].clone();
            worker::emit("B", 0, &case);
            worker::clear_key();
            let r = match worker::guarded(|| w.run(&case)) {
                Ok(r) => r,
                Err((loc, msg)) => CaseResult::violation(
                    0,
                    format!("host panic at {}: {}", loc, msg),
                    worker::merge_key(serde_json::json!({"kind": "host-panic", "location": worker::strip_repo(&loc)}), &case),
                ),
            };
            worker::emit("E", 0, &r.to_json());
        }
        "replay" => std::process::exit(sup::replay(&args[2])),
        "builds" => {
            // which non-debug worker builds does this property/tier need?
            if let Some(p) = props::lookup(&args[2]) {
                let mut bs: Vec<&str> = p.phases(tier).iter().map(|ph| ph.build.name()).filter(|b| *b != "debug").collect();
                bs.sort();
                bs.dedup();
                println!("{}", bs.join(" "));
            }
        }
        "eval" => props::tools::eval(&args[2..]),
        "reduce01" | "reduce" => props::tools::reduce01(&args[2..]),
        "dbg01" => props::tools::dbg01(&args[2..]),
        "c05-families" => props::tools::c05_families(),
        "c16-batch" => props::c16::batch_main(),
        "dbg17" => props::c17::dbg_main(&args[2..]),
        "dbg19" => props::c19::dbg_main(),
        "dbg11" => props::c11::dbg_main(&args[2..]),
        "dbg03" => props::c03::dbg_main(&args[2..]),
        "dbg15" => props::c15::dbg_main(),
        "dbg13" => props::c13::dbg_main(&args[2..]),
        "twice" => props::tools::twice(&args[2..]),
        "fmt" => props::tools::fmt(&args[2..]),
        id => {
            let prop = match props::lookup(id) {
                Some(p) => p,
                None => {
                    eprintln!("unknown property {}", id);
                    std::process::exit(2);
                }
            };
            std::process::exit(sup::run_property(prop, tier, seed));
        }
    }
}
