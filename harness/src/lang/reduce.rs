//! Type-agnostic delta debugging on the harness AST: the real checker is the filter (a candidate
//! that no longer typechecks simply does not reproduce the signature and is rejected).
use super::ast::*;

pub fn children(e: &Expr) -> Vec<&Expr> {
    use Expr::*;
    match e {
        Lit(_) | Var(_) | Unit => vec![],
        Lam(_, x) | Proj(x, _) | Shw(_, x) => vec![x],
        App(f, a) => std::iter::once(&**f).chain(a.iter()).collect(),
        Let(_, _, v, bd) | Do(_, v, bd) | BinOp(_, v, bd) => vec![v, bd],
        LetRec(bs, bd) => bs.iter().map(|x| &x.2).chain(std::iter::once(&**bd)).collect(),
        If(a, b_, c) => vec![a, b_, c],
        Match(s, alts) => std::iter::once(&**s).chain(alts.iter().map(|x| &x.1)).collect(),
        Record(fs, base) => fs.iter().map(|x| &x.1).chain(base.iter().map(|x| &**x)).collect(),
        Tuple(es) | Array(es) => es.iter().collect(),
    }
}

pub fn with_children(e: &Expr, mut cs: Vec<Expr>) -> Expr {
    use Expr::*;
    let mut next = || cs.remove(0);
    match e {
        Lit(_) | Var(_) | Unit => e.clone(),
        Lam(p, _) => Lam(p.clone(), b(next())),
        Proj(_, f) => Proj(b(next()), f.clone()),
        Shw(i, _) => Shw(i.clone(), b(next())),
        App(_, a) => {
            let f = next();
            App(b(f), a.iter().map(|_| next()).collect())
        }
        Let(p, ps, _, _) => {
            let v = next();
            Let(p.clone(), ps.clone(), b(v), b(next()))
        }
        Do(x, _, _) => {
            let v = next();
            Do(x.clone(), b(v), b(next()))
        }
        BinOp(op, _, _) => {
            let l = next();
            BinOp(op.clone(), b(l), b(next()))
        }
        LetRec(bs, _) => {
            let nb = bs.iter().map(|x| (x.0.clone(), x.1.clone(), next())).collect();
            LetRec(nb, b(next()))
        }
        If(..) => {
            let c = next();
            let t = next();
            If(b(c), b(t), b(next()))
        }
        Match(_, alts) => {
            let s = next();
            Match(b(s), alts.iter().map(|x| (x.0.clone(), next())).collect())
        }
        Record(fs, base) => {
            let nf = fs.iter().map(|x| (x.0.clone(), next())).collect();
            Record(nf, base.as_ref().map(|_| b(next())))
        }
        Tuple(es) => Tuple(es.iter().map(|_| next()).collect()),
        Array(es) => Array(es.iter().map(|_| next()).collect()),
    }
}

fn count(e: &Expr) -> usize {
    1 + children(e).iter().map(|c| count(c)).sum::<usize>()
}

fn get(e: &Expr, i: usize) -> &Expr {
    if i == 0 {
        return e;
    }
    let mut k = i - 1;
    for c in children(e) {
        let n = count(c);
        if k < n {
            return get(c, k);
        }
        k -= n;
    }
    unreachable!()
}

fn replace(e: &Expr, i: usize, new: &Expr) -> Expr {
    if i == 0 {
        return new.clone();
    }
    let mut k = i - 1;
    let cs = children(e);
    let mut out = Vec::new();
    let mut done = false;
    for c in cs {
        let n = count(c);
        if !done && k < n {
            out.push(replace(c, k, new));
            done = true;
        } else {
            out.push(c.clone());
            if !done {
                k -= n;
            }
        }
    }
    with_children(e, out)
}

/// single-step reductions of the node itself
fn local_candidates(e: &Expr) -> Vec<Expr> {
    use Expr::*;
    let mut out: Vec<Expr> = children(e).into_iter().cloned().collect();
    match e {
        Match(s, alts) if alts.len() > 1 => {
            for i in 0..alts.len() {
                let mut a = alts.clone();
                a.remove(i);
                out.push(Match(s.clone(), a));
            }
        }
        Record(fs, base) => {
            for i in 0..fs.len() {
                let mut f = fs.clone();
                f.remove(i);
                out.push(Record(f, base.clone()));
            }
            if base.is_some() {
                out.push(Record(fs.clone(), None));
            }
        }
        LetRec(bs, bd) if bs.len() > 1 => {
            for i in 0..bs.len() {
                let mut nb = bs.clone();
                nb.remove(i);
                out.push(LetRec(nb, bd.clone()));
            }
        }
        Tuple(es) if es.len() > 2 => {
            for i in 0..es.len() {
                let mut n = es.clone();
                n.remove(i);
                out.push(Tuple(n));
            }
        }
        Array(es) if !es.is_empty() => {
            for i in 0..es.len() {
                let mut n = es.clone();
                n.remove(i);
                out.push(Array(n));
            }
        }
        App(f, a) if a.len() > 1 => {
            let mut n = a.clone();
            n.pop();
            out.push(App(f.clone(), n));
        }
        Let(p, ps, v, bd) if !ps.is_empty() => {
            // drop a parameter
            let mut q = ps.clone();
            q.pop();
            out.push(Let(p.clone(), q, v.clone(), bd.clone()));
        }
        Let(p, ps, v, bd) if !matches!(p, Pat::Var(_)) && ps.is_empty() => {
            out.push(Let(Pat::Wild, vec![], v.clone(), bd.clone()));
        }
        _ => {}
    }
    if !matches!(e, Lit(_) | Unit | Var(_)) {
        out.push(super::ast::int(0));
        out.push(Unit);
        out.push(super::ast::var("True"));
        out.push(Lit(super::ast::Lit::Str(String::new())));
        out.push(Lit(super::ast::Lit::Float(0.0)));
    }
    out
}

/// Greedy reduction: `still_fails` must return true when the candidate reproduces the signature
pub fn reduce(p: &Program, still_fails: &mut dyn FnMut(&Program) -> bool, max_tests: usize) -> Program {
    let mut cur = p.clone();
    let mut tests = 0;
    let mut progress = true;
    while progress && tests < max_tests {
        progress = false;
        let body = cur.body.clone().unwrap();
        let n = count(&body);
        let mut i = 0;
        'outer: while i < n {
            let node = get(&body, i);
            for cand in local_candidates(node) {
                if count(&cand) >= count(node) && !matches!(cand, Expr::Lit(_) | Expr::Unit | Expr::Var(_)) {
                    continue;
                }
                if count(&cand) == count(node) {
                    continue;
                }
                let nb = replace(&body, i, &cand);
                let mut np = cur.clone();
                np.body = Some(nb);
                tests += 1;
                if still_fails(&np) {
                    cur = np;
                    progress = true;
                    break 'outer;
                }
                if tests >= max_tests {
                    break 'outer;
                }
            }
            i += 1;
        }
    }
    // drop unused type declarations from the end
    loop {
        if cur.types.is_empty() {
            break;
        }
        let mut np = cur.clone();
        np.types.pop();
        if still_fails(&np) {
            cur = np;
        } else {
            break;
        }
    }
    for flag in 0..3 {
        let mut np = cur.clone();
        match flag {
            0 => np.uses_shw = false,
            1 => np.uses_do = false,
            _ => np.uses_fx = false,
        }
        if np != cur && still_fails(&np) {
            cur = np;
        }
    }
    cur
}

/// Neutralising rewrite for the recursive-*value* feature: the generator's
/// `rec let rv = { go = \n -> .. rv.go (n - 1) .., k = c } in body` becomes the equivalent
/// `rec let go' n = .. go' (n - 1) .. in let rv = { go = go', k = c } in body`.
pub fn rec_values_as_functions(e: &Expr) -> Expr {
    fn subst(e: &Expr, rv: &str, go: &str) -> Expr {
        if let Expr::Proj(base, f) = e {
            if f == "go" {
                if let Expr::Var(v) = &**base {
                    if v == rv {
                        return Expr::Var(go.to_string());
                    }
                }
            }
        }
        let cs: Vec<Expr> = children(e).into_iter().map(|c| subst(c, rv, go)).collect();
        with_children(e, cs)
    }
    let cs: Vec<Expr> = children(e).into_iter().map(rec_values_as_functions).collect();
    let e2 = with_children(e, cs);
    if let Expr::LetRec(binds, body) = &e2 {
        if binds.len() == 1 && binds[0].1.is_empty() {
            if let Expr::Record(fields, None) = &binds[0].2 {
                if let Some((fname, Expr::Lam(ps, lam_body))) = fields.first() {
                    if fname == "go" {
                        let rv = &binds[0].0;
                        let go = format!("{}_go", rv);
                        let new_body = subst(lam_body, rv, &go);
                        let mut nf = vec![("go".to_string(), Expr::Var(go.clone()))];
                        nf.extend(fields[1..].iter().cloned());
                        let inner = Expr::Let(Pat::Var(rv.clone()), vec![], b(Expr::Record(nf, None)), body.clone());
                        return Expr::LetRec(vec![(go, ps.clone(), new_body)], b(inner));
                    }
                }
            }
        }
    }
    e2
}

/// Neutralising rewrite for "projection `v._k` on a tuple-typed variable": the projection becomes
/// a match with a full tuple pattern (`match v with | (_, t, _) -> t`), same meaning.
pub fn tuple_projections_as_patterns(e: &Expr, tuple_vars: &[(String, usize)]) -> Expr {
    let cs: Vec<Expr> = children(e).into_iter().map(|c| tuple_projections_as_patterns(c, tuple_vars)).collect();
    let e2 = with_children(e, cs);
    if let Expr::Proj(base, f) = &e2 {
        if let (Expr::Var(v), Some(k)) = (&**base, f.strip_prefix('_').and_then(|k| k.parse::<usize>().ok())) {
            if let Some((_, n)) = tuple_vars.iter().find(|(name, _)| name == v) {
                if k < *n {
                    let t = format!("{}_t{}", v, k);
                    let pats = (0..*n).map(|i| if i == k { Pat::Var(t.clone()) } else { Pat::Wild }).collect();
                    return Expr::Match(b(Expr::Var(v.clone())), vec![(Pat::Tuple(pats), Expr::Var(t))]);
                }
            }
        }
    }
    e2
}

/// Neutralising rewrite for "record patterns of one match list different field sets / orders":
/// every column of record patterns is rewritten to list the same fields in the same order
/// (missing fields become `_`), same meaning.
pub fn normalise_record_patterns(e: &Expr) -> Expr {
    fn strip_as(p: &Pat) -> &Pat {
        match p {
            Pat::As(_, inner) => strip_as(inner),
            p => p,
        }
    }
    fn map_inner(p: &Pat, f: &dyn Fn(&Pat) -> Pat) -> Pat {
        match p {
            Pat::As(n, inner) => Pat::As(n.clone(), Box::new(map_inner(inner, f))),
            p => f(p),
        }
    }
    fn norm_column(col: Vec<Pat>) -> Vec<Pat> {
        // union of record fields in order of first appearance
        let mut union: Vec<String> = Vec::new();
        for p in &col {
            if let Pat::Record(fs) = strip_as(p) {
                for (n, _) in fs {
                    if !union.contains(n) {
                        union.push(n.clone());
                    }
                }
            }
        }
        let col: Vec<Pat> = if union.is_empty() {
            col
        } else {
            col.iter()
                .map(|p| {
                    map_inner(p, &|q| match q {
                        Pat::Record(fs) => Pat::Record(
                            union
                                .iter()
                                .map(|n| match fs.iter().find(|(m, _)| m == n) {
                                    Some((_, Some(sp))) => (n.clone(), Some(sp.clone())),
                                    Some((_, None)) => (n.clone(), Some(Pat::Var(n.clone()))),
                                    None => (n.clone(), Some(Pat::Wild)),
                                })
                                .collect(),
                        ),
                        q => q.clone(),
                    })
                })
                .collect()
        };
        // recurse into sub-columns of structurally aligned patterns
        let mut out = col.clone();
        // records (now aligned)
        if !union.is_empty() {
            for (fi, _) in union.iter().enumerate() {
                let idxs: Vec<usize> = (0..out.len()).filter(|i| matches!(strip_as(&out[*i]), Pat::Record(_))).collect();
                let sub: Vec<Pat> = idxs.iter().map(|i| match strip_as(&out[*i]) { Pat::Record(fs) => fs[fi].1.clone().unwrap(), _ => unreachable!() }).collect();
                let sub = norm_column(sub);
                for (k, i) in idxs.iter().enumerate() {
                    let s = sub[k].clone();
                    out[*i] = map_inner(&out[*i], &|q| match q {
                        Pat::Record(fs) => {
                            let mut fs = fs.clone();
                            fs[fi].1 = Some(s.clone());
                            Pat::Record(fs)
                        }
                        q => q.clone(),
                    });
                }
            }
        }
        // tuples of equal arity
        let arity = out.iter().filter_map(|p| if let Pat::Tuple(ps) = strip_as(p) { Some(ps.len()) } else { None }).next();
        if let Some(n) = arity {
            for k in 0..n {
                let idxs: Vec<usize> = (0..out.len()).filter(|i| matches!(strip_as(&out[*i]), Pat::Tuple(ps) if ps.len() == n)).collect();
                let sub: Vec<Pat> = idxs.iter().map(|i| match strip_as(&out[*i]) { Pat::Tuple(ps) => ps[k].clone(), _ => unreachable!() }).collect();
                let sub = norm_column(sub);
                for (j, i) in idxs.iter().enumerate() {
                    let s = sub[j].clone();
                    out[*i] = map_inner(&out[*i], &|q| match q {
                        Pat::Tuple(ps) => {
                            let mut ps = ps.clone();
                            ps[k] = s.clone();
                            Pat::Tuple(ps)
                        }
                        q => q.clone(),
                    });
                }
            }
        }
        // constructors, grouped by name
        let mut names: Vec<(String, usize)> = Vec::new();
        for p in &out {
            if let Pat::Ctor(c, ps) = strip_as(p) {
                if !names.iter().any(|(n, _)| n == c) {
                    names.push((c.clone(), ps.len()));
                }
            }
        }
        for (c, n) in names {
            for k in 0..n {
                let idxs: Vec<usize> = (0..out.len()).filter(|i| matches!(strip_as(&out[*i]), Pat::Ctor(d, ps) if *d == c && ps.len() == n)).collect();
                let sub: Vec<Pat> = idxs.iter().map(|i| match strip_as(&out[*i]) { Pat::Ctor(_, ps) => ps[k].clone(), _ => unreachable!() }).collect();
                let sub = norm_column(sub);
                for (j, i) in idxs.iter().enumerate() {
                    let s = sub[j].clone();
                    out[*i] = map_inner(&out[*i], &|q| match q {
                        Pat::Ctor(d, ps) => {
                            let mut ps = ps.clone();
                            ps[k] = s.clone();
                            Pat::Ctor(d.clone(), ps)
                        }
                        q => q.clone(),
                    });
                }
            }
        }
        out
    }
    let cs: Vec<Expr> = children(e).into_iter().map(normalise_record_patterns).collect();
    let e2 = with_children(e, cs);
    if let Expr::Match(s, alts) = &e2 {
        let col = norm_column(alts.iter().map(|a| a.0.clone()).collect());
        return Expr::Match(s.clone(), col.into_iter().zip(alts.iter().map(|a| a.1.clone())).collect());
    }
    e2
}

/// AST-level mutation (G-mut on the harness AST): most results are ill-typed; the ones the real
/// checker still accepts are the interesting population for the soundness check.
/// Arity and shape mutations of a pattern: surplus / missing sub-patterns of constructor and
/// tuple patterns, unknown / dropped record fields, a literal of another type
pub fn mutate_pat(p: &Pat, rng: &mut crate::rng::Rng) -> Pat {
    let extra = |rng: &mut crate::rng::Rng| match rng.below(4) {
        0 => Pat::Wild,
        1 => Pat::Lit(Lit::Int(2)),
        2 => Pat::Var("unused_q".into()),
        _ => Pat::Lit(Lit::Str("q".into())),
    };
    match p {
        Pat::Ctor(n, ps) => {
            // recurse into a sub-pattern sometimes
            if !ps.is_empty() && rng.chance(1, 3) {
                let mut ps2 = ps.clone();
                let k = rng.below(ps2.len());
                ps2[k] = mutate_pat(&ps2[k], rng);
                return Pat::Ctor(n.clone(), ps2);
            }
            let mut ps2 = ps.clone();
            match rng.below(4) {
                0 if !ps2.is_empty() => {
                    ps2.pop();
                }
                1 => {
                    ps2.push(extra(rng));
                    ps2.push(extra(rng));
                }
                _ => ps2.push(extra(rng)),
            }
            Pat::Ctor(n.clone(), ps2)
        }
        Pat::Tuple(ps) => {
            let mut ps2 = ps.clone();
            // a one-element tuple is not a tuple: never shrink below two
            if rng.chance(1, 2) && ps2.len() > 2 {
                ps2.pop();
            } else {
                ps2.push(extra(rng));
            }
            Pat::Tuple(ps2)
        }
        Pat::Record(fs) => {
            let mut fs2 = fs.clone();
            if rng.chance(1, 2) && !fs2.is_empty() {
                let k = rng.below(fs2.len());
                match &fs2[k].1 {
                    Some(sub) => fs2[k].1 = Some(mutate_pat(sub, rng)),
                    None => {
                        fs2.remove(k);
                    }
                }
            } else {
                fs2.push(("zz_unknown".into(), Some(extra(rng))));
            }
            Pat::Record(fs2)
        }
        Pat::As(n, sub) => Pat::As(n.clone(), Box::new(mutate_pat(sub, rng))),
        Pat::Wild | Pat::Var(_) | Pat::Lit(_) => match rng.below(3) {
            0 => Pat::Ctor("Some".into(), vec![p.clone(), extra(rng)]),
            1 => Pat::Tuple(vec![p.clone(), extra(rng)]),
            _ => extra(rng),
        },
    }
}

pub fn mutate_ast(e: &Expr, rng: &mut crate::rng::Rng) -> (Expr, &'static str) {
    let n = count(e);
    let i = rng.below(n);
    let node = get(e, i).clone();
    let mut vars: Vec<String> = Vec::new();
    super::gen::walk(e, &mut |x| {
        if let Expr::Var(v) = x {
            if !vars.contains(v) {
                vars.push(v.clone());
            }
        }
    });
    match rng.below(10) {
        0 | 1 => {
            let j = rng.below(n);
            (replace(e, i, &get(e, j).clone()), "replace-by-other-subterm")
        }
        8 | 9 => {
            // mutate a pattern of the nearest match / let at or below the chosen node
            let mut target: Option<usize> = None;
            for k in (i..n).chain(0..i) {
                if matches!(get(e, k), Expr::Match(..) | Expr::Let(..)) {
                    target = Some(k);
                    break;
                }
            }
            match target.map(|k| (k, get(e, k).clone())) {
                Some((k, Expr::Match(s, alts))) if !alts.is_empty() => {
                    let mut a = alts.clone();
                    let x = rng.below(a.len());
                    a[x].0 = mutate_pat(&a[x].0, rng);
                    (replace(e, k, &Expr::Match(s, a)), "mutate-pattern")
                }
                Some((k, Expr::Let(p, params, rhs, body))) if params.is_empty() => {
                    let p2 = mutate_pat(&p, rng);
                    (replace(e, k, &Expr::Let(p2, params, rhs, body)), "mutate-pattern")
                }
                _ => (e.clone(), "none"),
            }
        }
        2 => {
            let lits = [super::ast::int(3), Expr::Lit(Lit::Str("m".into())), Expr::Lit(Lit::Float(2.5)), Expr::Unit, super::ast::var("True"), Expr::Lit(Lit::Char('c')), Expr::Array(vec![])];
            (replace(e, i, rng.pick(&lits)), "replace-by-literal")
        }
        3 if !vars.is_empty() => (replace(e, i, &Expr::Var(rng.pick(&vars).clone())), "replace-by-variable"),
        4 => {
            let cs: Vec<Expr> = children(&node).into_iter().cloned().collect();
            if cs.len() >= 2 {
                let mut cs2 = cs.clone();
                let a = rng.below(cs.len());
                let b_ = rng.below(cs.len());
                cs2.swap(a, b_);
                (replace(e, i, &with_children(&node, cs2)), "swap-children")
            } else {
                (e.clone(), "none")
            }
        }
        5 => match &node {
            Expr::BinOp(_, l, r) => {
                let ops = ["#Int+", "#Int==", "#Float*", "#Int<", "&&", "#Byte+", "#Char=="];
                (replace(e, i, &Expr::BinOp(rng.pick(&ops).to_string(), l.clone(), r.clone())), "change-operator")
            }
            Expr::Proj(b_, _) => (replace(e, i, &Expr::Proj(b_.clone(), rng.pick(&["a", "b", "x", "_0", "_1", "go"]).to_string())), "change-field"),
            // same fields and values, other order: a different (order-significant) record type
            Expr::Record(fs, base) if fs.len() >= 2 => {
                let mut f2 = fs.clone();
                let a = rng.below(f2.len());
                let b_ = (a + 1 + rng.below(f2.len() - 1)) % f2.len();
                f2.swap(a, b_);
                (replace(e, i, &Expr::Record(f2, base.clone())), "permute-record-fields")
            }
            _ => (e.clone(), "none"),
        },
        6 => match &node {
            Expr::Match(s, alts) if alts.len() >= 2 => {
                let mut a = alts.clone();
                let x = rng.below(a.len());
                let y = rng.below(a.len());
                let px = a[x].0.clone();
                a[x].0 = a[y].0.clone();
                a[y].0 = px;
                (replace(e, i, &Expr::Match(s.clone(), a)), "swap-patterns")
            }
            Expr::App(f, args) if !args.is_empty() => {
                let mut a = args.clone();
                a.pop();
                (replace(e, i, &super::ast::app((**f).clone(), a)), "drop-argument")
            }
            _ => (e.clone(), "none"),
        },
        _ => {
            // wrap in an application / projection
            match rng.below(3) {
                0 => (replace(e, i, &Expr::App(b(node.clone()), vec![super::ast::int(1)])), "apply-to-argument"),
                1 => (replace(e, i, &Expr::Proj(b(node.clone()), "a".into())), "project-field"),
                _ => (replace(e, i, &Expr::Tuple(vec![node.clone(), super::ast::int(0)])), "wrap-in-tuple"),
            }
        }
    }
}
