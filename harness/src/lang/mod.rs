pub mod ast;
pub mod gen;
pub mod print;
pub mod reval;
pub mod fromgluon;
pub mod mutate;
pub mod reduce;
