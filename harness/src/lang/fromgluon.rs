//! Converter from the real parser's AST (gluon_base::ast) to the harness AST, for structural
//! comparison (positions ignored). Also collects every node's span.
use super::ast as h;
use gluon::base::ast::{self, Expr, Literal, Pattern, PatternField, SpannedExpr, SpannedPattern, ValueBindings};
use gluon::base::pos::{BytePos, Span};
use gluon::base::symbol::Symbol;

fn name(s: &Symbol) -> String {
    s.declared_name().to_string()
}

pub fn lit(l: &Literal) -> h::Lit {
    match l {
        Literal::Byte(b) => h::Lit::Byte(*b),
        Literal::Int(i) => h::Lit::Int(*i),
        Literal::Float(f) => h::Lit::Float(f.into_inner()),
        Literal::String(s) => h::Lit::Str(s.clone()),
        Literal::Char(c) => h::Lit::Char(*c),
    }
}

pub fn pat(p: &SpannedPattern<'_, Symbol>) -> Result<h::Pat, String> {
    Ok(match &p.value {
        Pattern::As(n, inner) => h::Pat::As(name(&n.value), Box::new(pat(inner)?)),
        Pattern::Constructor(id, args) => h::Pat::Ctor(name(&id.name), args.iter().map(pat).collect::<Result<_, _>>()?),
        Pattern::Ident(id) => {
            let n = name(&id.name);
            if n == "_" {
                h::Pat::Wild
            } else if n.chars().next().map_or(false, |c| c.is_uppercase()) {
                h::Pat::Ctor(n, vec![])
            } else {
                h::Pat::Var(n)
            }
        }
        Pattern::Record { fields, .. } => {
            let mut out = Vec::new();
            for f in fields.iter() {
                match f {
                    PatternField::Type { name: n } => out.push((name(&n.value), None)),
                    PatternField::Value { name: n, value } => out.push((
                        name(&n.value),
                        match value {
                            Some(v) => Some(pat(v)?),
                            None => None,
                        },
                    )),
                }
            }
            h::Pat::Record(out)
        }
        Pattern::Tuple { elems, .. } => h::Pat::Tuple(elems.iter().map(pat).collect::<Result<_, _>>()?),
        Pattern::Literal(l) => h::Pat::Lit(lit(l)),
        Pattern::Error => return Err("error pattern".into()),
    })
}

pub struct Converted {
    pub expr: h::Expr,
    /// (span, span of parent) for every expression node
    pub spans: Vec<(Span<BytePos>, Option<Span<BytePos>>)>,
}

pub fn convert(e: &SpannedExpr<'_, Symbol>) -> Result<Converted, String> {
    let mut spans = Vec::new();
    let expr = expr(e, None, &mut spans)?;
    Ok(Converted { expr, spans })
}

fn exprs(es: &[SpannedExpr<'_, Symbol>], parent: Span<BytePos>, spans: &mut Vec<(Span<BytePos>, Option<Span<BytePos>>)>) -> Result<Vec<h::Expr>, String> {
    es.iter().map(|x| expr(x, Some(parent), spans)).collect()
}

pub fn expr(e: &SpannedExpr<'_, Symbol>, parent: Option<Span<BytePos>>, spans: &mut Vec<(Span<BytePos>, Option<Span<BytePos>>)>) -> Result<h::Expr, String> {
    spans.push((e.span, parent));
    let me = Some(e.span);
    Ok(match &e.value {
        Expr::Ident(id) => h::Expr::Var(name(&id.name)),
        Expr::Literal(l) => h::Expr::Lit(lit(l)),
        Expr::App { func, implicit_args, args } => {
            if !implicit_args.is_empty() {
                return Err("implicit args".into());
            }
            let f = expr(func, me, spans)?;
            let a = exprs(args, e.span, spans)?;
            h::Expr::App(Box::new(f), a)
        }
        Expr::Lambda(l) => h::Expr::Lam(l.args.iter().map(|a| name(&a.name.value.name)).collect(), Box::new(expr(l.body, me, spans)?)),
        Expr::IfElse(c, t, f) => h::Expr::If(Box::new(expr(c, me, spans)?), Box::new(expr(t, me, spans)?), Box::new(expr(f, me, spans)?)),
        Expr::Match(s, alts) => {
            let s2 = expr(s, me, spans)?;
            let mut out = Vec::new();
            for a in alts.iter() {
                out.push((pat(&a.pattern)?, expr(&a.expr, me, spans)?));
            }
            h::Expr::Match(Box::new(s2), out)
        }
        Expr::Infix { lhs, op, rhs, .. } => h::Expr::BinOp(name(&op.value.name), Box::new(expr(lhs, me, spans)?), Box::new(expr(rhs, me, spans)?)),
        Expr::Projection(b, f, _) => h::Expr::Proj(Box::new(expr(b, me, spans)?), name(f)),
        Expr::Array(a) => h::Expr::Array(exprs(a.exprs, e.span, spans)?),
        Expr::Record { types, exprs: fields, base, .. } => {
            if !types.is_empty() {
                return Err("type field in record".into());
            }
            let mut out = Vec::new();
            for f in fields.iter() {
                let n = name(&f.name.value);
                let v = match &f.value {
                    Some(v) => expr(v, me, spans)?,
                    None => h::Expr::Var(n.clone()),
                };
                out.push((n, v));
            }
            let b = match base {
                Some(b) => Some(Box::new(expr(b, me, spans)?)),
                None => None,
            };
            if out.is_empty() && b.is_none() {
                // `{ }` and `()` denote the same value; the harness AST writes unit
                return Ok(h::Expr::Unit);
            }
            h::Expr::Record(out, b)
        }
        Expr::Tuple { elems, .. } => {
            if elems.is_empty() {
                h::Expr::Unit
            } else if elems.len() == 1 {
                // parenthesised expression
                spans.pop();
                return expr(&elems[0], parent, spans);
            } else {
                h::Expr::Tuple(exprs(elems, e.span, spans)?)
            }
        }
        Expr::LetBindings(binds, body) => {
            let body2 = expr(body, me, spans)?;
            match binds {
                ValueBindings::Plain(b) => {
                    let v = expr(&b.expr, me, spans)?;
                    h::Expr::Let(pat(&b.name)?, b.args.iter().map(|a| name(&a.name.value.name)).collect(), Box::new(v), Box::new(body2))
                }
                ValueBindings::Recursive(bs) => {
                    let mut out = Vec::new();
                    for b in bs.iter() {
                        let n = match pat(&b.name)? {
                            h::Pat::Var(n) => n,
                            p => return Err(format!("rec binding with pattern {:?}", p)),
                        };
                        out.push((n, b.args.iter().map(|a| name(&a.name.value.name)).collect(), expr(&b.expr, me, spans)?));
                    }
                    h::Expr::LetRec(out, Box::new(body2))
                }
            }
        }
        Expr::TypeBindings(_, body) => {
            spans.pop();
            return expr(body, parent, spans);
        }
        Expr::Block(es) => {
            if es.len() == 1 {
                spans.pop();
                return expr(&es[0], parent, spans);
            }
            return Err(format!("block of {} expressions", es.len()));
        }
        Expr::Do(d) => {
            let bound = expr(d.bound, me, spans)?;
            let body = expr(d.body, me, spans)?;
            let id = match &d.id {
                Some(p) => match pat(p)? {
                    h::Pat::Var(n) => Some(n),
                    p => return Err(format!("do with pattern {:?}", p)),
                },
                None => None,
            };
            h::Expr::Do(id, Box::new(bound), Box::new(body))
        }
        Expr::MacroExpansion { original, .. } => {
            spans.pop();
            return expr(original, parent, spans);
        }
        Expr::Annotated(inner, _) => {
            spans.pop();
            return expr(inner, parent, spans);
        }
        Expr::Error(_) => return Err("error node".into()),
    })
}

/// Normal form of a harness AST as the parser would see its printed text: `Shw` is the call
/// `shw x`, negative literals stay literals, `app` of no arguments is the function itself.
pub fn normalise(e: &h::Expr) -> h::Expr {
    use super::reduce::{children, with_children};
    let cs: Vec<h::Expr> = children(e).into_iter().map(normalise).collect();
    let e2 = with_children(e, cs);
    match e2 {
        h::Expr::Shw(_, a) => h::Expr::App(Box::new(h::Expr::Var("shw".into())), vec![*a]),
        h::Expr::App(f, args) if args.is_empty() => *f,
        h::Expr::Record(fs, None) if fs.is_empty() => h::Expr::Unit,
        other => other,
    }
}

#[allow(dead_code)]
fn _unused(_: &ast::Argument<()>) {}
