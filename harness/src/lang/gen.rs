//! G-prog: type-directed generator of closed, terminating, well-typed programs of the core
//! language together with their result type. Termination is by construction (explicit fuel
//! arguments for recursion). In `ordered` mode (used with the reference interpreter) at most one
//! sibling sub-expression may contain anything that can fail, so no evaluation order among
//! siblings is presumed.
use super::ast::*;
use crate::rng::Rng;
use std::collections::BTreeSet;

#[derive(Clone, Debug)]
pub struct GenOpts {
    pub max_depth: u32,
    pub node_budget: i32,
    /// probability (percent) that a program may contain failing constructs at all
    pub fail_pct: u32,
    /// no restriction on failing siblings, effects anywhere (differential use only)
    pub order_free: bool,
    /// emit calls to verif.fx (requires order_free or single effect sites)
    pub effects: bool,
    /// use implicit-prelude operators (+, ==, <) instead of primitives for a share of ops
    pub prelude_ops: bool,
    /// user type declarations
    pub max_types: usize,
    /// emit every record pattern complete and in the field order of the record's type (the
    /// random subset / order is still drawn, so both modes consume the PRNG identically and give
    /// twin programs that differ in nothing else)
    pub canonical_record_patterns: bool,
}

impl GenOpts {
    pub fn default_ordered() -> GenOpts {
        GenOpts { max_depth: 5, node_budget: 70, fail_pct: 30, order_free: false, effects: false, prelude_ops: false, max_types: 2, canonical_record_patterns: false }
    }
}

#[derive(Clone, Debug)]
struct VarInfo {
    name: String,
    ty: Ty,
    /// calling/using it may fail (restricted mode)
    tainted: bool,
    /// fuel-recursive function: first argument is fuel and must be a small literal or `n - 1`
    fuel: bool,
}

pub struct Gen<'a> {
    pub rng: &'a mut Rng,
    pub opts: GenOpts,
    pub types: Vec<TypeDecl>,
    scope: Vec<VarInfo>,
    next_id: usize,
    pub feats: BTreeSet<&'static str>,
    uses_shw: bool,
    uses_do: bool,
    uses_fx: bool,
    budget: i32,
    /// inside the body of a fuel-recursive group: (function names, name of the fuel variable)
    rec_ctx: Vec<(Vec<String>, String)>,
    msg_ctr: usize,
    tuple_vars: Vec<(String, usize)>,
}

const STRS: &[&str] = &["", "a", "ab", "xyz", "hello world", "åäö", "λ→", "q\"uote", "tab\tx", "line\nbreak", "0", "日本", "hello.world", "a.b", "std.prelude", "@home", "x@1", "n@12_3", ".", "..", "@", "a:b", "{x}", "//c", "/*c*/", "#Int+", "\\", "r#", "'", "1.5e3", "_", "-- ", "Some x", "let", "\u{1F600}", "a\r\nb"];
const FLOATS: &[f64] = &[0.0, 1.0, 0.5, 2.0, 1.25, 3.5, 100.0, 0.125, 1e10, 7.75, -1.5, -0.0, -1e10, 0.001, 123456.789, -7.75, -0.125];
// non-ASCII char literals panic the lexer on the unchanged tree (finding under C09): not used here
const CHARS: &[char] = &['a', 'z', 'A', '0', ' ', '~', '\n', '\''];

type G = (Expr, bool);

impl<'a> Gen<'a> {
    pub fn new(rng: &'a mut Rng, opts: GenOpts) -> Gen<'a> {
        let budget = opts.node_budget;
        Gen { rng, opts, types: Vec::new(), scope: Vec::new(), next_id: 0, feats: BTreeSet::new(), uses_shw: false, uses_do: false, uses_fx: false, budget, rec_ctx: Vec::new(), msg_ctr: 0, tuple_vars: Vec::new() }
    }

    fn fresh(&mut self, prefix: &str) -> String {
        self.next_id += 1;
        // occasionally reuse a visible name (shadowing) when it is safe to do so
        format!("{}{}", prefix, self.next_id)
    }

    fn feat(&mut self, f: &'static str) {
        self.feats.insert(f);
    }

    // ---------------------------------------------------------------- types

    pub fn gen_decls(&mut self) {
        let n = self.rng.below(self.opts.max_types + 1);
        for i in 0..n {
            let name = format!("T{}", i);
            let nctors = 2 + self.rng.below(3);
            let mut ctors = Vec::new();
            for c in 0..nctors {
                let cname = format!("C{}x{}", i, c);
                let nargs = if c == 0 { self.rng.below(2) } else { self.rng.below(3) };
                let mut args = Vec::new();
                for _ in 0..nargs {
                    // self-recursive argument (never in the first constructor)
                    if c > 0 && self.rng.chance(1, 4) {
                        args.push(Ty::User(i));
                    } else {
                        args.push(self.gen_simple_ty(i));
                    }
                }
                ctors.push((cname, args));
            }
            self.types.push(TypeDecl { name, ctors });
        }
    }

    fn gen_simple_ty(&mut self, navail: usize) -> Ty {
        match self.rng.weighted(&[6, 3, 3, 1, 1, 1, 2, 2, 2]) {
            0 => Ty::Int,
            1 => Ty::Str,
            2 => Ty::Bool,
            3 => Ty::Float,
            4 => Ty::Char,
            5 => Ty::Byte,
            6 => Ty::Tuple(vec![Ty::Int, Ty::Str]),
            7 if navail > 0 => Ty::User(self.rng.below(navail)),
            8 => Ty::Option(Box::new(Ty::Int)),
            _ => Ty::Int,
        }
    }

    pub fn gen_ty(&mut self, depth: u32, first_order: bool) -> Ty {
        let comp = if depth == 0 { 0 } else { 1 };
        let w = [
            9,
            4,
            4,
            2,
            1,
            1,
            1,
            3 * comp,
            5 * comp,
            2 * comp,
            if self.types.is_empty() { 0 } else { 4 },
            2 * comp,
            if first_order { 0 } else { 2 * comp },
        ];
        match self.rng.weighted(&w) {
            0 => Ty::Int,
            1 => Ty::Bool,
            2 => Ty::Str,
            3 => Ty::Float,
            4 => Ty::Char,
            5 => Ty::Byte,
            6 => Ty::Unit,
            7 => {
                let n = 2 + self.rng.below(2);
                Ty::Tuple((0..n).map(|_| self.gen_ty(depth - 1, first_order)).collect())
            }
            8 => {
                let n = match self.rng.weighted(&[1, 3, 3, 2, 1, 2, 1, 1]) {
                    k => k + 1,
                };
                let mut names: Vec<String> = ["a", "b", "c", "x", "y", "z", "f", "g", "k"].iter().map(|s| s.to_string()).collect();
                self.rng.shuffle(&mut names);
                Ty::Record((0..n).map(|i| (names[i].clone(), self.gen_ty(if n > 4 { 0 } else { depth - 1 }, first_order))).collect())
            }
            9 => Ty::Option(Box::new(self.gen_ty(depth - 1, first_order))),
            10 => Ty::User(self.rng.below(self.types.len())),
            11 => Ty::Array(Box::new(self.gen_ty(depth - 1, first_order))),
            _ => {
                let n = 1 + self.rng.below(3);
                let ps = (0..n).map(|_| { let fo = self.rng_first_order(); self.gen_ty(depth - 1, fo) }).collect();
                let r = self.gen_ty(depth - 1, false);
                Ty::fun(ps, r)
            }
        }
    }

    fn rng_first_order(&mut self) -> bool {
        !self.rng.chance(1, 4)
    }

    // ---------------------------------------------------------------- scope

    fn visible(&self) -> Vec<&VarInfo> {
        let mut seen: Vec<&str> = Vec::new();
        let mut out = Vec::new();
        for v in self.scope.iter().rev() {
            if !seen.contains(&v.name.as_str()) {
                seen.push(&v.name);
                out.push(v);
            }
        }
        out
    }

    fn vars_of(&self, ty: &Ty, allow_tainted: bool) -> Vec<String> {
        self.visible().into_iter().filter(|v| &v.ty == ty && (allow_tainted || !v.tainted) && !v.fuel).map(|v| v.name.clone()).collect()
    }

    fn push_var(&mut self, name: &str, ty: Ty, tainted: bool) {
        if let Ty::Tuple(ts) = &ty {
            self.tuple_vars.push((name.to_string(), ts.len()));
        }
        self.scope.push(VarInfo { name: name.to_string(), ty, tainted, fuel: false });
    }

    // ---------------------------------------------------------------- leaves

    fn int_lit(&mut self) -> Expr {
        let v = match self.rng.weighted(&[10, 3, 1, 1]) {
            0 => self.rng.range(0, 12),
            1 => self.rng.range(-5, -1),
            2 => self.rng.range(1000, 100000),
            _ => *self.rng.pick(&[i64::MAX, i64::MIN + 1, 1 << 40, -(1 << 33)]),
        };
        int(v)
    }

    pub fn gen_leaf(&mut self, ty: &Ty, mf: bool) -> Expr {
        self.budget -= 1;
        let vars = self.vars_of(ty, false);
        if !vars.is_empty() && self.rng.chance(3, 5) {
            return Expr::Var(self.rng.pick(&vars).clone());
        }
        let _ = mf;
        match ty {
            Ty::Int => self.int_lit(),
            Ty::Float => Expr::Lit(Lit::Float(*self.rng.pick(FLOATS))),
            Ty::Byte => Expr::Lit(Lit::Byte(self.rng.below(256) as u8)),
            Ty::Char => Expr::Lit(Lit::Char(*self.rng.pick(CHARS))),
            Ty::Str => Expr::Lit(Lit::Str(self.rng.pick(STRS).to_string())),
            Ty::Bool => var(if self.rng.chance(1, 2) { "True" } else { "False" }),
            Ty::Unit => Expr::Unit,
            Ty::Tuple(ts) => Expr::Tuple(ts.iter().map(|t| self.gen_leaf(t, false)).collect()),
            Ty::Record(fs) => {
                if fs.is_empty() {
                    Expr::Unit
                } else {
                    Expr::Record(fs.iter().map(|(n, t)| (n.clone(), self.gen_leaf(t, false))).collect(), None)
                }
            }
            Ty::User(i) => {
                let (c, args) = self.types[*i].ctors[0].clone();
                app(var(&c), args.iter().map(|t| self.gen_leaf(t, false)).collect())
            }
            Ty::Option(t) => {
                if self.rng.chance(1, 6) {
                    var("None")
                } else {
                    app(var("Some"), vec![self.gen_leaf(t, false)])
                }
            }
            Ty::Array(t) => {
                let n = if self.rng.chance(1, 10) { 0 } else { 1 + self.rng.below(3) };
                Expr::Array((0..n).map(|_| self.gen_leaf(t, false)).collect())
            }
            Ty::Fun(ps, r) => {
                let names: Vec<String> = ps.iter().map(|_| self.fresh("p")).collect();
                let mark = self.scope.len();
                for (n, t) in names.iter().zip(ps.iter()) {
                    self.push_var(n, t.clone(), false);
                }
                let body = self.gen_leaf(r, false);
                self.scope.truncate(mark);
                Expr::Lam(names, b(body))
            }
        }
    }

    fn fail_expr(&mut self, ty: &Ty) -> Expr {
        self.feat("failing-construct");
        self.msg_ctr += 1;
        let k = self.msg_ctr;
        match (ty, self.rng.below(4)) {
            (Ty::Int, 0) => {
                self.feat("int-overflow");
                binop("#Int*", int(i64::MAX), int(2 + self.rng.range(0, 5)))
            }
            (Ty::Int, 1) => {
                self.feat("div-by-zero");
                binop("#Int/", self.int_lit(), int(0))
            }
            (Ty::Int, 2) => {
                self.feat("int-overflow");
                binop("#Int+", int(i64::MAX), int(1 + self.rng.range(0, 5)))
            }
            (Ty::Byte, 0) | (Ty::Byte, 1) => {
                self.feat("byte-overflow");
                binop("#Byte+", Expr::Lit(Lit::Byte(250)), Expr::Lit(Lit::Byte(10)))
            }
            (_, 3) if !matches!(ty, Ty::Fun(..)) => {
                // unmatched pattern
                self.feat("unmatched-pattern");
                let leaf = self.gen_leaf(ty, false);
                Expr::Match(b(int(1)), vec![(Pat::Lit(Lit::Int(0)), leaf)])
            }
            _ => {
                self.feat("explicit-error");
                app(var("error"), vec![Expr::Lit(Lit::Str(format!("e{}", k)))])
            }
        }
    }

    // ---------------------------------------------------------------- siblings

    /// generate sibling sub-expressions; in ordered mode at most one of them may fail
    fn siblings(&mut self, tys: &[Ty], d: u32, mf: bool) -> (Vec<Expr>, bool) {
        let chosen = if mf && !tys.is_empty() { Some(self.rng.below(tys.len())) } else { None };
        let mut out = Vec::new();
        let mut any = false;
        for (i, t) in tys.iter().enumerate() {
            let m = if self.opts.order_free { mf } else { chosen == Some(i) };
            let (e, f) = self.gen_expr(t, d, m);
            any |= f;
            out.push(e);
        }
        (out, any)
    }

    // ---------------------------------------------------------------- expressions

    pub fn gen_expr(&mut self, ty: &Ty, d: u32, mf: bool) -> G {
        // values that contain functions are never allowed to hide failing code (see module doc)
        let mf = mf && (self.opts.order_free || ty.first_order());
        if d == 0 || self.budget <= 0 {
            if mf && self.rng.chance(1, 6) {
                return (self.fail_expr(ty), true);
            }
            return (self.gen_leaf(ty, mf), false);
        }
        self.budget -= 1;
        let d1 = d - 1;
        // candidate productions
        let has_var = !self.vars_of(ty, false).is_empty();
        let call_cands = self.call_candidates(ty, mf);
        let proj_cands = self.proj_candidates(ty);
        let w = [
            if has_var { 4 } else { 0 },                  // 0 var
            6,                                            // 1 constructive form for the type
            if call_cands.is_empty() { 0 } else { 9 },    // 2 call
            3,                                            // 3 if
            5,                                            // 4 let value
            4,                                            // 5 let function
            2,                                            // 6 let rec
            5,                                            // 7 match
            if proj_cands.is_empty() { 1 } else { 4 },    // 8 projection
            2,                                            // 9 immediately applied lambda
            3,                                            // 10 let pattern
            if matches!(ty, Ty::Option(_)) { 4 } else { 0 }, // 11 do
            2,                                            // 12 polymorphic helper
            if mf { 3 } else { 0 },                       // 13 failing construct
            if self.opts.effects && *ty == Ty::Int { 4 } else { 0 }, // 14 effect
            if self.in_rec_ctx_for(ty) { 8 } else { 0 },  // 15 recursive call
            if self.opts.effects { 6 } else { 0 },        // 16 discarded effectful / failing call
        ];
        match self.rng.weighted(&w) {
            0 => {
                let vars = self.vars_of(ty, false);
                (Expr::Var(self.rng.pick(&vars).clone()), false)
            }
            1 => self.gen_construct(ty, d1, mf),
            2 => {
                let c = self.rng.pick(&call_cands).clone();
                self.gen_call(c, d1, mf)
            }
            3 => {
                self.feat("if");
                let (c, f1) = self.gen_expr(&Ty::Bool, d1, mf);
                let (t, f2) = self.gen_expr(ty, d1, mf);
                let (e, f3) = self.gen_expr(ty, d1, mf);
                (Expr::If(b(c), b(t), b(e)), f1 || f2 || f3)
            }
            4 => {
                self.feat("let-value");
                let fo = self.rng_first_order();
                let vt = self.gen_ty(2, fo);
                let (v, f1) = self.gen_expr(&vt, d1, mf);
                let name = self.fresh("v");
                let mark = self.scope.len();
                let wild = self.rng.chance(1, 12);
                if !wild {
                    self.push_var(&name, vt, f1);
                }
                let (body, f2) = self.gen_expr(ty, d1, mf);
                self.scope.truncate(mark);
                let pat = if wild { Pat::Wild } else { Pat::Var(name) };
                (Expr::Let(pat, vec![], b(v), b(body)), f1 || f2)
            }
            5 => self.gen_let_fun(ty, d1, mf),
            6 => self.gen_let_rec(ty, d1, mf),
            7 => self.gen_match(ty, d1, mf),
            8 => self.gen_proj(ty, d1, mf, proj_cands),
            9 => {
                self.feat("applied-lambda");
                let n = 1 + self.rng.below(2);
                let pts: Vec<Ty> = (0..n).map(|_| self.gen_ty(1, true)).collect();
                let names: Vec<String> = pts.iter().map(|_| self.fresh("p")).collect();
                // arguments and the lambda are siblings
                let (args, f1) = self.siblings(&pts, d1, mf);
                let mark = self.scope.len();
                for (nm, t) in names.iter().zip(pts.iter()) {
                    self.push_var(nm, t.clone(), false);
                }
                let body_mf = mf && (self.opts.order_free || !f1);
                let (body, f2) = self.gen_expr(ty, d1, body_mf);
                self.scope.truncate(mark);
                (Expr::App(b(Expr::Lam(names, b(body))), args), f1 || f2)
            }
            10 => self.gen_let_pat(ty, d1, mf),
            11 => self.gen_do(ty, d1, mf),
            12 => self.gen_poly(ty, d1, mf),
            13 => (self.fail_expr(ty), true),
            14 => {
                self.feat("effect-call");
                self.uses_fx = true;
                let (a, f) = self.gen_expr(&Ty::Int, d1, mf);
                if self.rng.chance(1, 5) {
                    (app(Expr::Proj(b(var("fx")), "boom".into()), vec![a]), true)
                } else {
                    (app(Expr::Proj(b(var("fx")), "tick".into()), vec![a]), f)
                }
            }
            15 => self.gen_rec_call(ty, d1, mf),
            _ => {
                // a call whose result is discarded, reached every way C04 lists
                self.feat("discarded-call");
                let call = self.effect_form(d1);
                let (body, f) = self.gen_expr(ty, d1, mf);
                let pat = match self.rng.below(3) {
                    0 => Pat::Wild,
                    1 => Pat::Var(self.fresh("unused")),
                    _ => {
                        self.feat("discarded-in-record");
                        // dead record / tuple holding the call
                        let e = Expr::Let(Pat::Var(self.fresh("unused")), vec![], b(Expr::Record(vec![("q".into(), call), ("w".into(), int(1))], None)), b(body));
                        return (e, true);
                    }
                };
                (Expr::Let(pat, vec![], b(call), b(body)), f || true)
            }
        }
    }

    /// Int-typed call with an observable effect or a failure, through: direct identifier, record
    /// field, module field, closure returned from a call, partial application, implicit argument,
    /// built-in arithmetic (the one kind the optimiser may skip)
    pub fn effect_form(&mut self, d: u32) -> Expr {
        self.uses_fx = true;
        let arg = if d > 0 && self.rng.chance(1, 3) { self.gen_expr(&Ty::Int, d.min(2), false).0 } else { int(self.rng.range(0, 9)) };
        let fld = |r: &str, f: &str| Expr::Proj(b(var(r)), f.to_string());
        match self.rng.below(14) {
            0 => {
                self.feat("fx-direct");
                app(fld("fx", "tick"), vec![arg])
            }
            1 => {
                self.feat("fx-record-field");
                app(fld("hrec", "tickf"), vec![arg])
            }
            2 => {
                self.feat("fail-record-field");
                app(fld("hrec", "boomf"), vec![int(1)])
            }
            3 => {
                self.feat("fx-returned-closure");
                Expr::App(b(app(var("mk_tick"), vec![Expr::Unit])), vec![arg])
            }
            4 => {
                self.feat("fail-returned-closure");
                Expr::App(b(app(var("mk_boom"), vec![Expr::Unit])), vec![arg])
            }
            5 => {
                self.feat("fx-partial-application");
                Expr::App(b(app(var("papp"), vec![int(self.rng.range(0, 9))])), vec![arg])
            }
            6 => {
                self.feat("fx-module-field");
                app(fld("c04m", "tick"), vec![arg])
            }
            7 => {
                self.feat("fail-module-field");
                app(fld("c04m", "boom"), vec![arg])
            }
            8 => {
                self.feat("dead-arith-overflow");
                binop("#Int*", int(i64::MAX), int(2))
            }
            9 => {
                self.feat("dead-arith-div0");
                binop("#Int/", arg, int(0))
            }
            10 => {
                self.feat("fail-direct-ident");
                app(var("boom_direct"), vec![arg])
            }
            11 => {
                self.feat("fx-boom-extern");
                app(fld("fx", "boom"), vec![arg])
            }
            12 => {
                self.feat("fail-unmatched-pattern");
                Expr::Match(b(arg), vec![(Pat::Lit(Lit::Int(-77)), int(0))])
            }
            _ => {
                self.feat("fail-explicit-error");
                app(var("error"), vec![Expr::Lit(Lit::Str("dead".into()))])
            }
        }
    }

    fn gen_construct(&mut self, ty: &Ty, d: u32, mf: bool) -> G {
        match ty {
            Ty::Int => match self.rng.weighted(&[5, 2, 2, 2, 2, 1]) {
                0 => {
                    let op = *self.rng.pick(&["#Int+", "#Int-", "#Int*"]);
                    let op = if self.opts.prelude_ops && self.rng.chance(1, 2) { &op[4..] } else { op };
                    self.feat("int-arith");
                    let (xs, f) = self.siblings(&[Ty::Int, Ty::Int], d, mf);
                    let mut it = xs.into_iter();
                    // products of two arbitrary expressions can overflow: that is a legitimate
                    // Arith outcome the reference computes too
                    (binop(op, it.next().unwrap(), it.next().unwrap()), f)
                }
                1 => {
                    self.feat("int-div");
                    let (x, f) = self.gen_expr(&Ty::Int, d, mf);
                    (binop("#Int/", x, int(*self.rng.pick(&[1, 2, 3, 7, -2]))), f)
                }
                2 => {
                    self.feat("array-len");
                    let t = self.gen_ty(1, true);
                    let (x, f) = self.gen_expr(&Ty::Array(Box::new(t)), d, mf);
                    (app(Expr::Proj(b(var("array")), "len".into()), vec![x]), f)
                }
                3 => {
                    self.feat("string-len");
                    let (x, f) = self.gen_expr(&Ty::Str, d, mf);
                    (app(Expr::Proj(b(var("string")), "len".into()), vec![x]), f)
                }
                4 => {
                    // array index with a statically in-bounds literal index
                    self.feat("array-index");
                    let n = 1 + self.rng.below(3);
                    let (xs, f) = self.siblings(&vec![Ty::Int; n], d, mf);
                    let i = self.rng.below(n) as i64;
                    (app(Expr::Proj(b(var("array")), "index".into()), vec![Expr::Array(xs), int(i)]), f)
                }
                _ => (self.int_lit(), false),
            },
            Ty::Bool => match self.rng.weighted(&[4, 3, 3, 1, 1, 1, 1]) {
                0 => {
                    let op = *self.rng.pick(&["#Int<", "#Int=="]);
                    let op = if self.opts.prelude_ops && self.rng.chance(1, 2) { &op[4..] } else { op };
                    self.feat("int-compare");
                    let (xs, f) = self.siblings(&[Ty::Int, Ty::Int], d, mf);
                    let mut it = xs.into_iter();
                    (binop(op, it.next().unwrap(), it.next().unwrap()), f)
                }
                1 | 2 => {
                    // short circuit: the right operand is only evaluated conditionally, so order
                    // is forced by the semantics and both sides may fail
                    self.feat("short-circuit");
                    let op = if self.rng.chance(1, 2) { "&&" } else { "||" };
                    let (l, f1) = self.gen_expr(&Ty::Bool, d, mf);
                    let (r, f2) = self.gen_expr(&Ty::Bool, d, mf);
                    (binop(op, l, r), f1 || f2)
                }
                3 => {
                    self.feat("float-compare");
                    let (xs, f) = self.siblings(&[Ty::Float, Ty::Float], d, mf);
                    let mut it = xs.into_iter();
                    (binop(*self.rng.pick(&["#Float<", "#Float=="]), it.next().unwrap(), it.next().unwrap()), f)
                }
                4 => {
                    self.feat("char-compare");
                    let (xs, f) = self.siblings(&[Ty::Char, Ty::Char], d, mf);
                    let mut it = xs.into_iter();
                    (binop(*self.rng.pick(&["#Char<", "#Char=="]), it.next().unwrap(), it.next().unwrap()), f)
                }
                5 => {
                    self.feat("string-eq");
                    let (xs, f) = self.siblings(&[Ty::Str, Ty::Str], d, mf);
                    (app(var("string_eq"), xs), f)
                }
                _ => {
                    self.feat("byte-compare");
                    let (xs, f) = self.siblings(&[Ty::Byte, Ty::Byte], d, mf);
                    let mut it = xs.into_iter();
                    (binop(*self.rng.pick(&["#Byte<", "#Byte=="]), it.next().unwrap(), it.next().unwrap()), f)
                }
            },
            Ty::Float => {
                if self.rng.chance(1, 2) {
                    self.feat("float-arith");
                    let (xs, f) = self.siblings(&[Ty::Float, Ty::Float], d, mf);
                    let mut it = xs.into_iter();
                    (binop(*self.rng.pick(&["#Float+", "#Float-", "#Float*"]), it.next().unwrap(), it.next().unwrap()), f)
                } else {
                    (self.gen_leaf(ty, false), false)
                }
            }
            Ty::Byte => {
                if self.rng.chance(1, 2) {
                    self.feat("byte-arith");
                    // small operands: no overflow unless a failing construct is asked for
                    let l = Expr::Lit(Lit::Byte(self.rng.below(100) as u8));
                    let r = Expr::Lit(Lit::Byte(self.rng.below(100) as u8));
                    (binop("#Byte+", l, r), false)
                } else {
                    (self.gen_leaf(ty, false), false)
                }
            }
            Ty::Str => match self.rng.weighted(&[3, 3, 2]) {
                0 => {
                    self.feat("string-append");
                    let (xs, f) = self.siblings(&[Ty::Str, Ty::Str], d, mf);
                    (app(Expr::Proj(b(var("string")), "append".into()), xs), f)
                }
                1 => self.gen_shw(d, mf),
                _ => (self.gen_leaf(ty, false), false),
            },
            Ty::Char | Ty::Unit => (self.gen_leaf(ty, false), false),
            Ty::Tuple(ts) => {
                self.feat("tuple");
                let (xs, f) = self.siblings(ts, d, mf);
                (Expr::Tuple(xs), f)
            }
            Ty::Record(fs) => {
                if fs.is_empty() {
                    return (Expr::Unit, false);
                }
                if fs.len() >= 2 && self.rng.chance(1, 3) {
                    return self.gen_record_update(fs, d, mf);
                }
                self.feat("record");
                if fs.len() >= 5 {
                    self.feat("record-5plus");
                }
                let tys: Vec<Ty> = fs.iter().map(|f| f.1.clone()).collect();
                let (xs, f) = self.siblings(&tys, d, mf);
                (Expr::Record(fs.iter().map(|f| f.0.clone()).zip(xs).collect(), None), f)
            }
            Ty::User(i) => {
                self.feat("variant");
                let ctors = self.types[*i].ctors.clone();
                let k = if d == 0 { 0 } else { self.rng.below(ctors.len()) };
                let (c, args) = ctors[k].clone();
                let (xs, f) = self.siblings(&args, d, mf);
                (app(var(&c), xs), f)
            }
            Ty::Option(t) => {
                self.feat("option");
                if self.rng.chance(1, 8) {
                    (var("None"), false)
                } else {
                    let (x, f) = self.gen_expr(t, d, mf);
                    (app(var("Some"), vec![x]), f)
                }
            }
            Ty::Array(t) => match self.rng.weighted(&[4, 2, 1]) {
                0 => {
                    self.feat("array");
                    let n = if self.rng.chance(1, 10) { 0 } else { 1 + self.rng.below(3) };
                    let (xs, f) = self.siblings(&vec![(**t).clone(); n], d, mf);
                    (Expr::Array(xs), f)
                }
                1 => {
                    self.feat("array-append");
                    let (xs, f) = self.siblings(&[ty.clone(), ty.clone()], d, mf);
                    (app(Expr::Proj(b(var("array")), "append".into()), xs), f)
                }
                _ => {
                    self.feat("array-slice");
                    let n = 1 + self.rng.below(3);
                    let (xs, f) = self.siblings(&vec![(**t).clone(); n], d, mf);
                    let s = self.rng.below(n + 1);
                    let e = s + self.rng.below(n - s + 1);
                    (app(Expr::Proj(b(var("array")), "slice".into()), vec![Expr::Array(xs), int(s as i64), int(e as i64)]), f)
                }
            },
            Ty::Fun(ps, r) => {
                self.feat("lambda");
                // split: \a b -> (\c -> ...) so that full calls over-apply
                let k = if ps.len() > 1 && self.rng.chance(1, 3) { 1 + self.rng.below(ps.len() - 1) } else { ps.len() };
                let names: Vec<String> = ps[..k].iter().map(|_| self.fresh("p")).collect();
                let mark = self.scope.len();
                for (n, t) in names.iter().zip(ps.iter()) {
                    self.push_var(n, t.clone(), false);
                }
                let rt = if k < ps.len() { Ty::Fun(ps[k..].to_vec(), r.clone()) } else { (**r).clone() };
                let (body, _) = self.gen_expr(&rt, d, false);
                self.scope.truncate(mark);
                (Expr::Lam(names, b(body)), false)
            }
        }
    }

    fn shw_inst(&mut self, d: u32) -> (ShwInst, Ty) {
        let top = if d == 0 { 3 } else { 5 };
        match self.rng.below(top) {
            0 => (ShwInst::Int, Ty::Int),
            1 => (ShwInst::Str, Ty::Str),
            2 => (ShwInst::Bool, Ty::Bool),
            // an instance is never nested directly inside itself: gluon's resolution deliberately
            // gives up on `shw_pair` under `shw_pair` ("possible infinite loop")
            3 => {
                let (i, t) = self.shw_inst(0);
                (ShwInst::Opt(Box::new(i)), Ty::Option(Box::new(t)))
            }
            _ => {
                let (i, t) = if self.rng.chance(1, 3) { let (i, t) = self.shw_inst(0); (ShwInst::Opt(Box::new(i)), Ty::Option(Box::new(t))) } else { self.shw_inst(0) };
                let (j, u) = self.shw_inst(0);
                (ShwInst::Pair(Box::new(i), Box::new(j)), Ty::Tuple(vec![t, u]))
            }
        }
    }

    fn gen_shw(&mut self, d: u32, mf: bool) -> G {
        self.feat("implicit-arg");
        self.uses_shw = true;
        let (inst, t) = self.shw_inst(2);
        if !matches!(inst, ShwInst::Int | ShwInst::Str | ShwInst::Bool) {
            self.feat("implicit-arg-nested");
        }
        // None alone would leave the element type ambiguous for implicit resolution: avoid bare
        // polymorphic leaves by always generating through typed generation (Some/None of a known
        // type is resolved from the annotation-free context only if the argument determines it)
        let (a, f) = self.gen_expr(&t, d, mf);
        let a = if contains_bare_none(&a) { self.gen_full_value(&t) } else { a };
        (Expr::Shw(inst, b(a)), f && false || f)
    }

    /// a closed literal value without `None` (whose type argument could stay ambiguous)
    fn gen_full_value(&mut self, t: &Ty) -> Expr {
        match t {
            Ty::Option(i) => app(var("Some"), vec![self.gen_full_value(i)]),
            Ty::Tuple(ts) => Expr::Tuple(ts.iter().map(|x| self.gen_full_value(x)).collect()),
            Ty::Int => int(self.rng.range(-3, 9)),
            Ty::Bool => var("True"),
            Ty::Str => Expr::Lit(Lit::Str("w".into())),
            _ => Expr::Unit,
        }
    }

    fn gen_record_update(&mut self, fs: &[(String, Ty)], d: u32, mf: bool) -> G {
        self.feat("record-update");
        let n = fs.len();
        // result = new fields fs[..k] (literal order) ++ base fields fs[k..] (base order, some overridden)
        let k = self.rng.below(n);
        let mut base: Vec<(String, Ty)> = Vec::new();
        let mut overrides: Vec<(String, Ty)> = Vec::new();
        for (name, t) in fs[k..].iter() {
            if self.rng.chance(1, 3) {
                // overridden: the base may hold another type there
                let bt = if self.rng.chance(1, 2) { t.clone() } else { self.gen_ty(0, true) };
                base.push((name.clone(), bt));
                overrides.push((name.clone(), t.clone()));
            } else {
                base.push((name.clone(), t.clone()));
            }
        }
        if k == 0 && overrides.is_empty() {
            let (name, t) = fs[self.rng.below(n)].clone();
            overrides.push((name, t));
        }
        if !overrides.is_empty() {
            self.feat("record-update-override");
        }
        // literal: new fields in order with the overrides inserted at random positions
        let mut lit: Vec<(String, Ty)> = fs[..k].to_vec();
        for o in overrides {
            let pos = self.rng.below(lit.len() + 1);
            lit.insert(pos, o);
        }
        let mut tys: Vec<Ty> = lit.iter().map(|f| f.1.clone()).collect();
        tys.push(Ty::Record(base));
        let (mut xs, f) = self.siblings(&tys, d, mf);
        let base_e = xs.pop().unwrap();
        (Expr::Record(lit.iter().map(|f| f.0.clone()).zip(xs).collect(), Some(b(base_e))), f)
    }

    // ---- calls

    /// (variable, number of arguments to pass) such that the application has type `ty`
    fn call_candidates(&self, ty: &Ty, mf: bool) -> Vec<(String, usize)> {
        let mut out = Vec::new();
        for v in self.visible() {
            if v.fuel || (v.tainted && !mf) {
                continue;
            }
            if let Ty::Fun(ps, r) = &v.ty {
                // full application
                if **r == *ty {
                    out.push((v.name.clone(), ps.len()));
                }
                // partial application
                if let Ty::Fun(qs, r2) = ty {
                    if !v.tainted && r2 == r && ps.len() > qs.len() && ps[ps.len() - qs.len()..] == qs[..] {
                        out.push((v.name.clone(), ps.len() - qs.len()));
                    }
                }
            }
        }
        out
    }

    fn gen_call(&mut self, (name, nargs): (String, usize), d: u32, mf: bool) -> G {
        let info = self.visible().into_iter().find(|v| v.name == name).cloned().unwrap();
        let ps = match &info.ty {
            Ty::Fun(ps, _) => ps.clone(),
            _ => unreachable!(),
        };
        if nargs < ps.len() {
            self.feat("partial-application");
        } else {
            self.feat("call");
        }
        // a tainted callee is itself the one sibling that may fail
        let args_mf = mf && (self.opts.order_free || !info.tainted);
        let (args, f) = self.siblings(&ps[..nargs], d, args_mf);
        // split the application sometimes: (f a) b  -- exercises partial application + call
        let e = if nargs >= 2 && self.rng.chance(1, 5) {
            self.feat("curried-call");
            let mut args = args;
            let rest = args.split_off(1 + self.rng.below(nargs - 1));
            Expr::App(b(Expr::App(b(var(&name)), args)), rest)
        } else {
            app(var(&name), args)
        };
        (e, f || info.tainted)
    }

    fn gen_let_fun(&mut self, ty: &Ty, d: u32, mf: bool) -> G {
        self.feat("let-function");
        let n = 1 + self.rng.below(3);
        let ps: Vec<Ty> = (0..n).map(|_| { let fo = self.rng_first_order(); self.gen_ty(1, fo) }).collect();
        let fo = self.rng_first_order();
        let r = if self.rng.chance(1, 3) { ty.clone() } else { self.gen_ty(2, fo) };
        let fty = Ty::fun(ps.clone(), r.clone());
        let all_ps = match &fty {
            Ty::Fun(p, _) => p.clone(),
            _ => unreachable!(),
        };
        // declared parameters: a prefix; the body then has function type (over-application)
        let k = if all_ps.len() > 1 && self.rng.chance(1, 3) { 1 + self.rng.below(all_ps.len() - 1) } else { ps.len().min(all_ps.len()) };
        if k < all_ps.len() {
            self.feat("over-application-target");
        }
        let names: Vec<String> = all_ps[..k].iter().map(|_| self.fresh("a")).collect();
        let mark = self.scope.len();
        for (nm, t) in names.iter().zip(all_ps.iter()) {
            self.push_var(nm, t.clone(), false);
        }
        let body_ty = match &fty {
            Ty::Fun(p, r) if k < p.len() => Ty::Fun(p[k..].to_vec(), r.clone()),
            Ty::Fun(_, r) => (**r).clone(),
            _ => unreachable!(),
        };
        let body_mf = mf && self.rng.chance(1, 2);
        let (fbody, ff) = self.gen_expr(&body_ty, d, body_mf);
        self.scope.truncate(mark);
        let fname = self.fresh("f");
        self.push_var(&fname, fty, ff);
        let (body, f2) = self.gen_expr(ty, d, mf);
        self.scope.truncate(mark);
        (Expr::Let(Pat::Var(fname), names, b(fbody), b(body)), f2)
    }

    fn in_rec_ctx_for(&self, ty: &Ty) -> bool {
        match self.rec_ctx.last() {
            Some((names, _)) => names.iter().any(|n| self.visible().iter().any(|v| &v.name == n && matches!(&v.ty, Ty::Fun(_, r) if **r == *ty))),
            None => false,
        }
    }

    fn gen_rec_call(&mut self, ty: &Ty, d: u32, mf: bool) -> G {
        let (names, fuel) = self.rec_ctx.last().cloned().unwrap();
        let cands: Vec<VarInfo> = self.visible().into_iter().filter(|v| names.contains(&v.name) && matches!(&v.ty, Ty::Fun(_, r) if **r == *ty)).cloned().collect();
        if cands.is_empty() {
            return (self.gen_leaf(ty, false), false);
        }
        self.feat("recursive-call");
        let c = self.rng.pick(&cands).clone();
        let ps = match &c.ty {
            Ty::Fun(ps, _) => ps.clone(),
            _ => unreachable!(),
        };
        // first parameter is the fuel: always `fuel - 1`; recursive calls never nest inside the
        // arguments of a recursive call (keeps the call tree polynomial)
        let saved = self.rec_ctx.pop().unwrap();
        let (mut args, f) = self.siblings(&ps[1..], d.min(2), mf && !c.tainted);
        self.rec_ctx.push(saved);
        args.insert(0, binop("#Int-", var(&fuel), int(1)));
        (app(var(&c.name), args), f || c.tainted)
    }

    fn gen_let_rec(&mut self, ty: &Ty, d: u32, mf: bool) -> G {
        let n = if self.rng.chance(1, 3) { 2 } else { 1 };
        if self.rng.chance(1, 7) {
            return self.gen_rec_value(ty, d, mf);
        }
        self.feat("rec-function");
        if n == 2 {
            self.feat("mutual-recursion");
        }
        let mark = self.scope.len();
        let mut sigs = Vec::new();
        for _ in 0..n {
            let k = self.rng.below(3);
            let mut ps: Vec<Ty> = vec![Ty::Int];
            for _ in 0..k {
                ps.push(self.gen_ty(1, true));
            }
            let r = if self.rng.chance(1, 2) { ty.clone() } else { self.gen_ty(1, true) };
            let r = if r.first_order() { r } else { Ty::Int };
            let name = self.fresh("r");
            sigs.push((name, ps, r));
        }
        let fail_in_body = mf && self.rng.chance(1, 3);
        for (name, ps, r) in &sigs {
            self.scope.push(VarInfo { name: name.clone(), ty: Ty::Fun(ps.clone(), Box::new(r.clone())), tainted: fail_in_body, fuel: true });
        }
        let names: Vec<String> = sigs.iter().map(|s| s.0.clone()).collect();
        let mut binds = Vec::new();
        for (name, ps, r) in &sigs {
            let pnames: Vec<String> = ps.iter().enumerate().map(|(i, _)| if i == 0 { self.fresh("n") } else { self.fresh("a") }).collect();
            let m2 = self.scope.len();
            for (i, (pn, pt)) in pnames.iter().zip(ps.iter()).enumerate() {
                if let Ty::Tuple(ts) = pt {
                    self.tuple_vars.push((pn.clone(), ts.len()));
                }
                self.scope.push(VarInfo { name: pn.clone(), ty: pt.clone(), tainted: false, fuel: i == 0 });
            }
            // base case: no recursion available
            let (base, _) = self.gen_expr(r, d.min(2), false);
            // the fuel variable is an ordinary Int inside the step
            self.scope[m2].fuel = false;
            self.rec_ctx.push((names.clone(), pnames[0].clone()));
            let (step, _) = self.gen_expr(r, d, fail_in_body);
            self.rec_ctx.pop();
            self.scope.truncate(m2);
            let body = Expr::If(b(binop("#Int<", var(&pnames[0]), int(1))), b(base), b(step));
            binds.push((name.clone(), pnames, body));
        }
        // in the body the functions are called with literal fuel
        let (body, f2) = self.gen_rec_use(ty, d, mf, &sigs, fail_in_body);
        self.scope.truncate(mark);
        (Expr::LetRec(binds, b(body)), f2)
    }

    /// body of a `rec` group: a call with literal fuel whose result feeds an expression of `ty`
    fn gen_rec_use(&mut self, ty: &Ty, d: u32, mf: bool, sigs: &[(String, Vec<Ty>, Ty)], tainted: bool) -> G {
        let (name, ps, r) = self.rng.pick(sigs).clone();
        let fuel = self.rng.range(0, 5);
        let (mut args, f1) = self.siblings(&ps[1..], d, mf && !tainted);
        args.insert(0, int(fuel));
        let call = app(var(&name), args);
        if r == *ty && self.rng.chance(1, 2) {
            self.feat("rec-call-in-tail-position");
            return (call, f1 || tainted);
        }
        let v = self.fresh("v");
        let m = self.scope.len();
        self.push_var(&v, r, false);
        let (body, f2) = self.gen_expr(ty, d, mf);
        self.scope.truncate(m);
        (Expr::Let(Pat::Var(v), vec![], b(call), b(body)), f1 || f2 || tainted)
    }

    /// recursive *value*: a record of closures that refer to the record itself
    fn gen_rec_value(&mut self, ty: &Ty, d: u32, mf: bool) -> G {
        self.feat("rec-value");
        let rname = self.fresh("rv");
        let n = self.fresh("n");
        let (base, _) = self.gen_expr(&Ty::Int, 1, false);
        let extra = self.rng.chance(1, 2);
        // { go = \n -> if n < 1 then base else 1 + rv.go (n - 1), k = <int> }
        let rec_call = app(Expr::Proj(b(var(&rname)), "go".into()), vec![binop("#Int-", var(&n), int(1))]);
        let step = binop("#Int+", int(1), rec_call);
        let go = Expr::Lam(vec![n.clone()], b(Expr::If(b(binop("#Int<", var(&n), int(1))), b(base), b(step))));
        let mut fields = vec![("go".to_string(), go)];
        let mut rty = vec![("go".to_string(), Ty::Fun(vec![Ty::Int], Box::new(Ty::Int)))];
        if extra {
            fields.push(("k".to_string(), int(self.rng.range(0, 9))));
            rty.push(("k".to_string(), Ty::Int));
        }
        let m = self.scope.len();
        // the record itself is not offered as a variable (its `go` needs fuel); bind the result
        let fuel = self.rng.range(0, 6);
        let call = app(Expr::Proj(b(var(&rname)), "go".into()), vec![int(fuel)]);
        let v = self.fresh("v");
        self.push_var(&v, Ty::Int, false);
        let (body, f2) = self.gen_expr(ty, d, mf);
        self.scope.truncate(m);
        let inner = Expr::Let(Pat::Var(v), vec![], b(call), b(body));
        (Expr::LetRec(vec![(rname, vec![], Expr::Record(fields, None))], b(inner)), f2)
    }

    // ---- patterns

    /// returns (pattern, bindings, irrefutable)
    fn gen_pat(&mut self, ty: &Ty, d: u32, refutable: bool) -> (Pat, Vec<(String, Ty)>, bool) {
        if d == 0 || self.rng.chance(1, 4) {
            if self.rng.chance(1, 4) {
                return (Pat::Wild, vec![], true);
            }
            let n = self.fresh("m");
            return (Pat::Var(n.clone()), vec![(n, ty.clone())], true);
        }
        let (p, bs, irr) = match ty {
            Ty::Int if refutable => (Pat::Lit(Lit::Int(self.rng.range(0, 4))), vec![], false),
            Ty::Str if refutable => (Pat::Lit(Lit::Str(self.rng.pick(STRS).to_string())), vec![], false),
            Ty::Char if refutable => (Pat::Lit(Lit::Char(*self.rng.pick(CHARS))), vec![], false),
            Ty::Byte if refutable => (Pat::Lit(Lit::Byte(self.rng.below(4) as u8)), vec![], false),
            Ty::Bool if refutable => (Pat::Ctor(if self.rng.chance(1, 2) { "True".into() } else { "False".into() }, vec![]), vec![], false),
            Ty::Tuple(ts) => {
                let mut ps = Vec::new();
                let mut bs = Vec::new();
                let mut irr = true;
                for t in ts {
                    let (p, b2, i) = self.gen_pat(t, d - 1, refutable);
                    ps.push(p);
                    bs.extend(b2);
                    irr &= i;
                }
                (Pat::Tuple(ps), bs, irr)
            }
            Ty::Record(fs) if !fs.is_empty() => {
                // a subset of the fields, in random order
                let mut idx: Vec<usize> = (0..fs.len()).collect();
                self.rng.shuffle(&mut idx);
                let k = 1 + self.rng.below(fs.len());
                idx.truncate(k);
                if self.rng.chance(1, 2) {
                    idx.sort();
                }
                let mut ps = Vec::new();
                let mut bs = Vec::new();
                let mut irr = true;
                for i in idx {
                    let (fname, ft) = &fs[i];
                    if self.rng.chance(1, 2) && !bs.iter().any(|(n, _): &(String, Ty)| n == fname) {
                        ps.push((fname.clone(), None));
                        bs.push((fname.clone(), ft.clone()));
                    } else {
                        let (p, b2, i2) = self.gen_pat(ft, d - 1, refutable);
                        ps.push((fname.clone(), Some(p)));
                        bs.extend(b2);
                        irr &= i2;
                    }
                }
                if self.opts.canonical_record_patterns {
                    let full: Vec<(String, Option<Pat>)> = fs
                        .iter()
                        .map(|(fname, _)| match ps.iter().find(|(n, _)| n == fname) {
                            Some((_, Some(p))) => (fname.clone(), Some(p.clone())),
                            Some((_, None)) => (fname.clone(), Some(Pat::Var(fname.clone()))),
                            None => (fname.clone(), Some(Pat::Wild)),
                        })
                        .collect();
                    ps = full;
                } else if ps.len() < fs.len() || ps.iter().map(|p| &p.0).ne(fs.iter().map(|f| &f.0)) {
                    self.feat("record-pattern-partial-or-reordered");
                }
                (Pat::Record(ps), bs, irr)
            }
            Ty::Option(t) if refutable => {
                if self.rng.chance(1, 3) {
                    (Pat::Ctor("None".into(), vec![]), vec![], false)
                } else {
                    let (p, bs, _) = self.gen_pat(t, d - 1, refutable);
                    (Pat::Ctor("Some".into(), vec![p]), bs, false)
                }
            }
            Ty::User(i) if refutable => {
                let ctors = self.types[*i].ctors.clone();
                let (c, args) = self.rng.pick(&ctors).clone();
                let mut ps = Vec::new();
                let mut bs = Vec::new();
                for t in &args {
                    let (p, b2, _) = self.gen_pat(t, d - 1, refutable);
                    ps.push(p);
                    bs.extend(b2);
                }
                (Pat::Ctor(c, ps), bs, false)
            }
            _ => {
                let n = self.fresh("m");
                (Pat::Var(n.clone()), vec![(n, ty.clone())], true)
            }
        };
        // punned record fields may collide with other bindings of the same pattern: drop dups
        let mut seen: Vec<String> = Vec::new();
        let dup = bs.iter().any(|(n, _)| {
            if seen.contains(n) {
                true
            } else {
                seen.push(n.clone());
                false
            }
        });
        if dup {
            let n = self.fresh("m");
            return (Pat::Var(n.clone()), vec![(n, ty.clone())], true);
        }
        if self.rng.chance(1, 8) {
            self.feat("as-pattern");
            let n = self.fresh("w");
            let mut bs = bs;
            bs.push((n.clone(), ty.clone()));
            return (Pat::As(n, Box::new(p)), bs, irr);
        }
        (p, bs, irr)
    }

    fn matchable_ty(&mut self) -> Ty {
        match self.rng.weighted(&[3, 2, 2, 3, 3, if self.types.is_empty() { 0 } else { 5 }, 1]) {
            0 => Ty::Int,
            1 => Ty::Bool,
            2 => Ty::Str,
            3 => Ty::Option(Box::new(self.gen_ty(1, true))),
            4 => {
                let n = 2 + self.rng.below(2);
                Ty::Tuple((0..n).map(|_| self.matchable_simple()).collect())
            }
            5 => Ty::User(self.rng.below(self.types.len())),
            _ => Ty::Char,
        }
    }

    fn matchable_simple(&mut self) -> Ty {
        match self.rng.below(5) {
            0 => Ty::Int,
            1 => Ty::Bool,
            2 => Ty::Option(Box::new(Ty::Int)),
            3 if !self.types.is_empty() => Ty::User(self.rng.below(self.types.len())),
            _ => Ty::Str,
        }
    }

    fn gen_match(&mut self, ty: &Ty, d: u32, mf: bool) -> G {
        self.feat("match");
        // scrutinee: an existing variable of a matchable type, or a fresh expression
        let cands: Vec<VarInfo> = self
            .visible()
            .into_iter()
            .filter(|v| !v.tainted && !v.fuel && matches!(v.ty, Ty::Int | Ty::Bool | Ty::Str | Ty::Option(_) | Ty::Tuple(_) | Ty::User(_) | Ty::Record(_) | Ty::Char))
            .cloned()
            .collect();
        let (scrut, sty, f0) = if !cands.is_empty() && self.rng.chance(1, 2) {
            let c = self.rng.pick(&cands).clone();
            (var(&c.name), c.ty, false)
        } else {
            let t = self.matchable_ty();
            let (e, f) = self.gen_expr(&t, d, mf);
            (e, t, f)
        };
        let nalts = 1 + self.rng.below(4);
        let mut alts = Vec::new();
        let mut any = f0;
        let mut closed = false;
        for _ in 0..nalts {
            let (p, bs, irr) = self.gen_pat(&sty, 2, true);
            if !matches!(p, Pat::Var(_) | Pat::Wild) {
                self.feat(match &p {
                    Pat::Lit(_) => "literal-pattern",
                    Pat::Ctor(_, ps) if ps.iter().any(|q| !matches!(q, Pat::Var(_) | Pat::Wild)) => "nested-pattern",
                    Pat::Tuple(ps) if ps.iter().any(|q| !matches!(q, Pat::Var(_) | Pat::Wild)) => "nested-pattern",
                    Pat::Record(_) => "record-pattern",
                    _ => "constructor-pattern",
                });
            }
            let m = self.scope.len();
            for (n, t) in &bs {
                self.push_var(n, t.clone(), false);
            }
            let (e, f) = self.gen_expr(ty, d, mf);
            self.scope.truncate(m);
            any |= f;
            alts.push((p, e));
            if irr {
                closed = true;
                break;
            }
        }
        if !closed {
            // complete the match unless an unmatched-pattern failure is wanted
            let exhaustive_bool = sty == Ty::Bool
                && alts.iter().any(|a| a.0 == Pat::Ctor("True".into(), vec![]))
                && alts.iter().any(|a| a.0 == Pat::Ctor("False".into(), vec![]));
            if mf && self.rng.chance(1, 5) {
                self.feat("maybe-unmatched-pattern");
                any = true;
            } else if !exhaustive_bool {
                let (e, f) = self.gen_expr(ty, d, mf);
                any |= f;
                let p = if self.rng.chance(1, 2) { Pat::Wild } else { Pat::Var(self.fresh("m")) };
                alts.push((p, e));
            }
        }
        (Expr::Match(b(scrut), alts), any)
    }

    fn gen_let_pat(&mut self, ty: &Ty, d: u32, mf: bool) -> G {
        self.feat("let-pattern");
        let vt = if self.rng.chance(1, 2) {
            let n = match self.rng.weighted(&[2, 3, 2, 1, 2, 1]) {
                k => k + 1,
            };
            let names = ["a", "b", "c", "x", "y", "z"];
            Ty::Record((0..n).map(|i| (names[i].to_string(), self.gen_ty(1, true))).collect())
        } else {
            let n = 2 + self.rng.below(2);
            Ty::Tuple((0..n).map(|_| self.gen_ty(1, true)).collect())
        };
        if let Ty::Record(fs) = &vt {
            if fs.len() >= 5 {
                self.feat("record-5plus-pattern");
            }
        }
        let (v, f1) = self.gen_expr(&vt, d, mf);
        let (p, bs, _) = self.gen_pat(&vt, 2, false);
        let m = self.scope.len();
        for (n, t) in &bs {
            self.push_var(n, t.clone(), f1 && !t.first_order());
        }
        let (body, f2) = self.gen_expr(ty, d, mf);
        self.scope.truncate(m);
        if mentions_poly(&v) && !matches!(p, Pat::Var(_) | Pat::Wild) {
            // a generalised value cannot be destructured by a `let` pattern (checker limitation
            // observed on the unchanged tree, see DESIGN C03): use a single-arm match instead
            self.feat("single-arm-match");
            return (Expr::Match(b(v), vec![(p, body)]), f1 || f2);
        }
        (Expr::Let(p, vec![], b(v), b(body)), f1 || f2)
    }

    // ---- projections

    fn proj_candidates(&self, ty: &Ty) -> Vec<(String, String)> {
        let mut out = Vec::new();
        for v in self.visible() {
            if v.tainted {
                continue;
            }
            match &v.ty {
                Ty::Record(fs) => {
                    for (n, t) in fs {
                        if t == ty {
                            out.push((v.name.clone(), n.clone()));
                        }
                    }
                }
                Ty::Tuple(ts) => {
                    for (i, t) in ts.iter().enumerate() {
                        if t == ty {
                            out.push((v.name.clone(), format!("_{}", i)));
                        }
                    }
                    let _ = "tuple-projection-on-variable";
                }
                _ => {}
            }
        }
        out
    }

    fn gen_proj(&mut self, ty: &Ty, d: u32, mf: bool, cands: Vec<(String, String)>) -> G {
        self.feat("projection");
        if !cands.is_empty() && self.rng.chance(2, 3) {
            let (v, f) = self.rng.pick(&cands).clone();
            if f.starts_with('_') {
                self.feat("tuple-projection-on-variable");
            }
            return (Expr::Proj(b(var(&v)), f), false);
        }
        // row-polymorphic accessor applied to two different record types
        if self.rng.chance(1, 3) && ty.first_order() {
            self.feat("row-polymorphic-access");
            let acc = self.fresh("get");
            let r = self.fresh("p");
            let other_t = self.gen_ty(0, true);
            let (x1, f1) = self.gen_expr(ty, d, mf);
            let rec1 = Expr::Record(vec![("q".into(), self.gen_leaf(&Ty::Int, false)), ("fld".into(), x1)], None);
            let rec2 = Expr::Record(vec![("fld".into(), self.gen_leaf(&other_t, false)), ("z".into(), Expr::Unit), ("q".into(), Expr::Unit)], None);
            let use1 = app(var(&acc), vec![rec1]);
            let use2 = app(var(&acc), vec![rec2]);
            let body = Expr::Let(Pat::Wild, vec![], b(use2), b(use1));
            return (Expr::Let(Pat::Var(acc), vec![r.clone()], b(Expr::Proj(b(var(&r)), "fld".into())), b(body)), f1);
        }
        // project out of a fresh record / tuple
        let n = 1 + self.rng.below(4);
        let k = self.rng.below(n);
        if self.rng.chance(1, 2) {
            let names = ["a", "b", "c", "x", "y"];
            let fs: Vec<(String, Ty)> = (0..n).map(|i| (names[i].to_string(), if i == k { ty.clone() } else { self.gen_ty(1, true) })).collect();
            let (e, f) = self.gen_expr(&Ty::Record(fs.clone()), d, mf);
            (Expr::Proj(b(e), fs[k].0.clone()), f)
        } else {
            let n = n.max(2);
            let k = k.min(n - 1);
            let ts: Vec<Ty> = (0..n).map(|i| if i == k { ty.clone() } else { self.gen_ty(1, true) }).collect();
            let (e, f) = self.gen_expr(&Ty::Tuple(ts), d, mf);
            self.feat("tuple-projection");
            (Expr::Proj(b(e), format!("_{}", k)), f)
        }
    }

    // ---- do / seq over the program-defined Option monad

    fn gen_do(&mut self, ty: &Ty, d: u32, mf: bool) -> G {
        self.feat("do-block");
        self.uses_do = true;
        let bt = self.gen_ty(1, true);
        let (bound, f1) = self.gen_expr(&Ty::Option(Box::new(bt.clone())), d, mf);
        let m = self.scope.len();
        let x = if self.rng.chance(1, 5) {
            self.feat("seq");
            None
        } else {
            let x = self.fresh("d");
            self.push_var(&x, bt, false);
            Some(x)
        };
        let (body, f2) = self.gen_expr(ty, d, mf);
        self.scope.truncate(m);
        (Expr::Do(x, b(bound), b(body)), f1 || f2)
    }

    // ---- let-polymorphism

    fn gen_poly(&mut self, ty: &Ty, d: u32, mf: bool) -> G {
        self.feat("let-polymorphism");
        let other = self.gen_ty(1, true);
        match self.rng.below(4) {
            0 => {
                // let id x = x in let _ = id <other> in id <ty>
                let id = self.fresh("id");
                let x = self.fresh("p");
                let (e, f) = self.gen_expr(ty, d, mf);
                let o = self.gen_leaf(&other, false);
                let body = Expr::Let(Pat::Wild, vec![], b(app(var(&id), vec![o])), b(app(var(&id), vec![e])));
                (Expr::Let(Pat::Var(id), vec![x.clone()], b(var(&x)), b(body)), f)
            }
            1 => {
                // let konst a b = a in konst <ty> <other>
                let k = self.fresh("konst");
                let (a, bb) = (self.fresh("p"), self.fresh("p"));
                let (xs, f) = self.siblings(&[ty.clone(), other.clone()], d, mf);
                (Expr::Let(Pat::Var(k.clone()), vec![a.clone(), bb], b(var(&a)), b(app(var(&k), xs))), f)
            }
            2 => {
                // let apply f x = f x in apply (\p -> <ty>) <other>
                let ap = self.fresh("apply");
                let (fv, xv) = (self.fresh("p"), self.fresh("p"));
                let p = self.fresh("p");
                let m = self.scope.len();
                self.push_var(&p, other.clone(), false);
                let (body, _) = self.gen_expr(ty, d, false);
                self.scope.truncate(m);
                let (arg, f) = self.gen_expr(&other, d, mf);
                self.feat("higher-order");
                (
                    Expr::Let(Pat::Var(ap.clone()), vec![fv.clone(), xv.clone()], b(app(var(&fv), vec![var(&xv)])), b(app(var(&ap), vec![Expr::Lam(vec![p], b(body)), arg]))),
                    f,
                )
            }
            _ => {
                // let twice f x = f (f x) in twice (\p -> <ty using p>) <ty>
                let tw = self.fresh("twice");
                let (fv, xv) = (self.fresh("p"), self.fresh("p"));
                let p = self.fresh("p");
                let m = self.scope.len();
                self.push_var(&p, ty.clone(), false);
                let (body, _) = self.gen_expr(ty, d.min(2), false);
                self.scope.truncate(m);
                let (arg, f) = self.gen_expr(ty, d, mf);
                self.feat("higher-order");
                let def = app(var(&fv), vec![app(var(&fv), vec![var(&xv)])]);
                (Expr::Let(Pat::Var(tw.clone()), vec![fv, xv], b(def), b(app(var(&tw), vec![Expr::Lam(vec![p], b(body)), arg]))), f)
            }
        }
    }

    pub fn into_program(self, body: Expr) -> Program {
        Program { types: self.types, uses_shw: self.uses_shw, uses_do: self.uses_do, uses_fx: self.uses_fx, tuple_vars: self.tuple_vars, extra_preamble: String::new(), body: Some(body) }
    }
}

/// syntactically mentions a polymorphic leaf (`None`, `[]`, `error`)
pub fn mentions_poly(e: &Expr) -> bool {
    let mut found = false;
    walk(e, &mut |x| match x {
        Expr::Var(v) if v == "None" || v == "error" => found = true,
        Expr::Array(es) if es.is_empty() => found = true,
        _ => {}
    });
    found
}

pub fn walk(e: &Expr, f: &mut dyn FnMut(&Expr)) {
    f(e);
    use Expr::*;
    match e {
        Lit(_) | Var(_) | Unit => {}
        Lam(_, x) | Proj(x, _) | Shw(_, x) => walk(x, f),
        App(g, a) => {
            walk(g, f);
            for x in a {
                walk(x, f);
            }
        }
        Let(_, _, v, bd) | Do(_, v, bd) | BinOp(_, v, bd) => {
            walk(v, f);
            walk(bd, f);
        }
        LetRec(bs, bd) => {
            for x in bs {
                walk(&x.2, f);
            }
            walk(bd, f);
        }
        If(a, b_, c) => {
            walk(a, f);
            walk(b_, f);
            walk(c, f);
        }
        Match(s, alts) => {
            walk(s, f);
            for x in alts {
                walk(&x.1, f);
            }
        }
        Record(fs, base) => {
            for x in fs {
                walk(&x.1, f);
            }
            if let Some(x) = base {
                walk(x, f);
            }
        }
        Tuple(es) | Array(es) => {
            for x in es {
                walk(x, f);
            }
        }
    }
}

fn contains_bare_none(e: &Expr) -> bool {
    match e {
        Expr::Var(v) => v == "None",
        Expr::App(f, args) => contains_bare_none(f) || args.iter().any(contains_bare_none),
        Expr::Tuple(es) => es.iter().any(contains_bare_none),
        Expr::Lit(_) => false,
        // anything more complex: be conservative
        _ => true,
    }
}

pub struct Generated {
    pub program: Program,
    pub ty: Ty,
    pub feats: Vec<&'static str>,
    pub may_fail: bool,
}

pub fn gen_program(rng: &mut Rng, opts: GenOpts) -> Generated {
    gen_program_with(rng, opts, |b| b)
}

pub fn gen_program_with(rng: &mut Rng, opts: GenOpts, wrap: impl Fn(Expr) -> Expr) -> Generated {
    let allow_fail = rng.chance(opts.fail_pct, 100);
    let depth = opts.max_depth;
    let mut g = Gen::new(rng, opts);
    g.gen_decls();
    let ty = g.gen_ty(2, true);
    let (body, f) = g.gen_expr(&ty, depth, allow_fail);
    let feats: Vec<&'static str> = g.feats.iter().cloned().collect();
    let body = wrap(body);
    Generated { program: g.into_program(body), ty, feats, may_fail: f }
}

/// Helper definitions the C04 effect forms refer to, wrapped around a body (ordinary AST, so the
/// reference interpreter and every printer understand them). `c04m` is bound by the preamble to
/// `import! c04mod` (see C04_MODULE).
pub fn wrap_effect_helpers(body: Expr) -> Expr {
    let fld = |r: &str, f: &str| Expr::Proj(b(var(r)), f.to_string());
    let x = || var("hx");
    let hrec = Expr::Record(
        vec![
            ("tickf".into(), Expr::Lam(vec!["hx".into()], b(app(fld("fx", "tick"), vec![x()])))),
            ("boomf".into(), Expr::Lam(vec!["hx".into()], b(Expr::If(b(binop("#Int==", x(), int(1))), b(app(var("error"), vec![Expr::Lit(Lit::Str("hb".into()))])), b(x()))))),
        ],
        None,
    );
    let mk_tick = Expr::Lam(vec!["hx".into()], b(app(fld("fx", "tick"), vec![x()])));
    let mk_boom = Expr::Lam(vec!["hx".into()], b(app(var("error"), vec![Expr::Lit(Lit::Str("cb".into()))])));
    let e = Expr::Let(Pat::Var("boom_direct".into()), vec!["hx".into()], b(app(var("error"), vec![Expr::Lit(Lit::Str("db".into()))])), b(body));
    let e = Expr::Let(Pat::Var("papp".into()), vec!["ha".into(), "hb".into()], b(app(fld("fx", "tick2"), vec![var("ha"), var("hb")])), b(e));
    let e = Expr::Let(Pat::Var("mk_boom".into()), vec!["hu".into()], b(mk_boom), b(e));
    let e = Expr::Let(Pat::Var("mk_tick".into()), vec!["hu".into()], b(mk_tick), b(e));
    Expr::Let(Pat::Var("hrec".into()), vec![], b(hrec), b(e))
}

pub const C04_MODULE: &str = "let fx = import! verif.fx
let { error } = import! std.prim
{ tick = \\x -> fx.tick (x #Int+ 100), boom = \\x -> error \"mb\" }
";
