//! Harness-side AST of the Gluon subset used by the generators (independent of gluon_base::ast).
use serde_derive::{Deserialize, Serialize};
use serde_json::{json, Value};

#[derive(Clone, Debug, PartialEq, Serialize, Deserialize)]
pub enum Ty {
    Int,
    Float,
    Byte,
    Char,
    Str,
    Bool,
    Unit,
    Tuple(Vec<Ty>),
    Record(Vec<(String, Ty)>),
    /// index into Program::types
    User(usize),
    Option(Box<Ty>),
    Array(Box<Ty>),
    Fun(Vec<Ty>, Box<Ty>),
}

impl Ty {
    pub fn first_order(&self) -> bool {
        match self {
            Ty::Fun(..) => false,
            Ty::Tuple(ts) => ts.iter().all(|t| t.first_order()),
            Ty::Record(fs) => fs.iter().all(|(_, t)| t.first_order()),
            Ty::Option(t) | Ty::Array(t) => t.first_order(),
            _ => true,
        }
    }
    pub fn fun(params: Vec<Ty>, ret: Ty) -> Ty {
        // keep function types in canonical uncurried-flattened form
        match ret {
            Ty::Fun(mut ps, r) => {
                let mut all = params;
                all.append(&mut ps);
                Ty::Fun(all, r)
            }
            r => Ty::Fun(params, Box::new(r)),
        }
    }
}

#[derive(Clone, Debug, PartialEq, Serialize, Deserialize)]
pub enum Lit {
    Int(i64),
    Float(f64),
    Byte(u8),
    Char(char),
    Str(String),
}

#[derive(Clone, Debug, PartialEq, Serialize, Deserialize)]
pub enum Pat {
    Wild,
    Var(String),
    Lit(Lit),
    Ctor(String, Vec<Pat>),
    /// field, optional sub-pattern (None = punned)
    Record(Vec<(String, Option<Pat>)>),
    Tuple(Vec<Pat>),
    As(String, Box<Pat>),
}

#[derive(Clone, Debug, PartialEq, Serialize, Deserialize)]
pub enum Expr {
    Lit(Lit),
    Var(String),
    Unit,
    Lam(Vec<String>, Box<Expr>),
    App(Box<Expr>, Vec<Expr>),
    /// `let pat params = value in body` (params non-empty => pat is Var)
    Let(Pat, Vec<String>, Box<Expr>, Box<Expr>),
    LetRec(Vec<(String, Vec<String>, Expr)>, Box<Expr>),
    If(Box<Expr>, Box<Expr>, Box<Expr>),
    Match(Box<Expr>, Vec<(Pat, Expr)>),
    Record(Vec<(String, Expr)>, Option<Box<Expr>>),
    Proj(Box<Expr>, String),
    Tuple(Vec<Expr>),
    Array(Vec<Expr>),
    BinOp(String, Box<Expr>, Box<Expr>),
    /// `do x = bound` / `seq bound` followed by body
    Do(Option<String>, Box<Expr>, Box<Expr>),
    /// `shw arg`: implicit-argument dispatch; the instance the checker must pick is recorded
    Shw(ShwInst, Box<Expr>),
}

#[derive(Clone, Debug, PartialEq, Serialize, Deserialize)]
pub enum ShwInst {
    Int,
    Str,
    Bool,
    Opt(Box<ShwInst>),
    Pair(Box<ShwInst>, Box<ShwInst>),
}

#[derive(Clone, Debug, PartialEq, Serialize, Deserialize)]
pub struct TypeDecl {
    pub name: String,
    /// constructor name, argument types
    pub ctors: Vec<(String, Vec<Ty>)>,
}

#[derive(Clone, Debug, PartialEq, Default, Serialize, Deserialize)]
pub struct Program {
    pub types: Vec<TypeDecl>,
    /// use the implicit-argument `Shw` class preamble
    pub uses_shw: bool,
    /// uses program-defined `flat_map` for Option (do/seq)
    pub uses_do: bool,
    /// uses the verif.fx effect module
    pub uses_fx: bool,
    /// names (unique) of variables of tuple type with their arity; lets a rewrite turn `v._k`
    /// into a full tuple pattern without type inference
    #[serde(default)]
    pub tuple_vars: Vec<(String, usize)>,
    /// extra text (imports of generated modules) printed after the base preamble
    #[serde(default)]
    pub extra_preamble: String,
    pub body: Option<Expr>,
}

pub fn b(e: Expr) -> Box<Expr> {
    Box::new(e)
}
pub fn var(s: &str) -> Expr {
    Expr::Var(s.to_string())
}
pub fn int(i: i64) -> Expr {
    Expr::Lit(Lit::Int(i))
}
pub fn app(f: Expr, args: Vec<Expr>) -> Expr {
    if args.is_empty() {
        f
    } else {
        Expr::App(b(f), args)
    }
}
pub fn binop(op: &str, l: Expr, r: Expr) -> Expr {
    Expr::BinOp(op.to_string(), b(l), b(r))
}

impl Expr {
    pub fn size(&self) -> usize {
        use Expr::*;
        1 + match self {
            Lit(_) | Var(_) | Unit => 0,
            Lam(_, e) => e.size(),
            App(f, a) => f.size() + a.iter().map(|x| x.size()).sum::<usize>(),
            Let(_, _, v, bd) => v.size() + bd.size(),
            LetRec(bs, bd) => bs.iter().map(|x| x.2.size()).sum::<usize>() + bd.size(),
            If(a, b_, c) => a.size() + b_.size() + c.size(),
            Match(s, alts) => s.size() + alts.iter().map(|x| x.1.size()).sum::<usize>(),
            Record(fs, base) => fs.iter().map(|x| x.1.size()).sum::<usize>() + base.as_ref().map_or(0, |x| x.size()),
            Proj(e, _) => e.size(),
            Tuple(es) | Array(es) => es.iter().map(|x| x.size()).sum::<usize>(),
            BinOp(_, l, r) => l.size() + r.size(),
            Do(_, a, b_) => a.size() + b_.size(),
            Shw(_, a) => 1 + a.size(),
        }
    }
}

pub fn lit_json(l: &Lit) -> Value {
    match l {
        Lit::Int(i) => json!({"int": i}),
        Lit::Float(f) => json!({"float": f}),
        Lit::Byte(x) => json!({"byte": x}),
        Lit::Char(c) => json!({"char": c.to_string()}),
        Lit::Str(s) => json!({"str": s}),
    }
}
