//! R-eval: strict call-by-value big-step reference interpreter over the harness AST.
//! Independent of gluon (shares no code with it). Outcome classes: value, explicit error,
//! unmatched pattern, arithmetic failure.
use super::ast::*;
use std::cell::RefCell;
use std::rc::Rc;

#[derive(Clone)]
pub enum V {
    Int(i64),
    Float(f64),
    Byte(u8),
    Char(char),
    Str(Rc<String>),
    Data(u32, Rc<Vec<V>>),
    Rec(Rc<Vec<(String, V)>>),
    Array(Rc<Vec<V>>),
    Clo(Rc<Closure>, Rc<Vec<V>>),
    Ctor(u32, usize, Rc<Vec<V>>),
    Prim(&'static str, usize, Rc<Vec<V>>),
    Hole(Rc<RefCell<Option<V>>>),
}

impl std::fmt::Debug for V {
    // values can be cyclic (recursive closures): never derive Debug
    fn fmt(&self, f: &mut std::fmt::Formatter) -> std::fmt::Result {
        let mut s = String::new();
        render(self, &mut s);
        f.write_str(&s)
    }
}

pub struct Closure {
    pub params: Vec<String>,
    pub body: Expr,
    pub env: Env,
}

#[derive(Clone, Debug, PartialEq)]
pub enum Fail {
    Explicit(String),
    Match,
    Arith,
    /// step budget exhausted: no verdict
    Budget,
    /// the reference interpreter got stuck: harness bug, never a verdict about gluon
    Stuck(String),
}

pub struct EnvNode {
    name: String,
    value: V,
    next: Env,
}
pub type Env = Option<Rc<EnvNode>>;

fn bind(env: &Env, name: &str, value: V) -> Env {
    Some(Rc::new(EnvNode { name: name.to_string(), value, next: env.clone() }))
}

fn lookup(env: &Env, name: &str) -> Option<V> {
    let mut cur = env;
    while let Some(n) = cur {
        if n.name == name {
            return Some(n.value.clone());
        }
        cur = &n.next;
    }
    None
}

pub struct Interp {
    pub steps: u64,
    pub budget: u64,
    /// (function, argument) of every call to an effectful host function, in order
    pub effects: Vec<(String, i64)>,
    /// skip built-in arithmetic whose failure would be the only observable effect (C04's
    /// permitted difference): failing arithmetic yields 0 instead of failing
    pub lenient_arith: bool,
    pub depth: u32,
    pub max_depth: u32,
}

pub fn vbool(b: bool) -> V {
    V::Data(if b { 1 } else { 0 }, Rc::new(Vec::new()))
}
pub fn vunit() -> V {
    V::Data(0, Rc::new(Vec::new()))
}
fn vstr(s: String) -> V {
    V::Str(Rc::new(s))
}

pub fn render(v: &V, out: &mut String) {
    match v {
        V::Int(i) => out.push_str(&format!("{}", i)),
        V::Float(f) => out.push_str(&format!("f{:016x}", f.to_bits())),
        V::Byte(b) => out.push_str(&format!("{}b", b)),
        V::Char(c) => out.push_str(&format!("{}", *c as u32)),
        V::Str(s) => out.push_str(&format!("{:?}", s.as_str())),
        V::Data(t, fs) => {
            out.push_str(&format!("<{}|", t));
            for (i, f) in fs.iter().enumerate() {
                if i > 0 {
                    out.push(',');
                }
                render(f, out);
            }
            out.push('>');
        }
        V::Rec(fs) => {
            out.push_str("<0|");
            for (i, (_, f)) in fs.iter().enumerate() {
                if i > 0 {
                    out.push(',');
                }
                render(f, out);
            }
            out.push('>');
        }
        V::Array(xs) => {
            out.push('[');
            for (i, f) in xs.iter().enumerate() {
                if i > 0 {
                    out.push(',');
                }
                render(f, out);
            }
            out.push(']');
        }
        V::Clo(..) | V::Ctor(..) | V::Prim(..) => out.push_str("<fn>"),
        V::Hole(_) => match deref(v.clone()) {
            V::Hole(_) => out.push_str("<uninit>"),
            d => render(&d, out),
        },
    }
}

pub fn shw_value(inst: &ShwInst, v: &V) -> Result<String, Fail> {
    let v = deref(v.clone());
    Ok(match (inst, &v) {
        (ShwInst::Int, V::Int(i)) => (if *i < 0 { "neg" } else if *i == 0 { "zero" } else { "pos" }).to_string(),
        (ShwInst::Str, V::Str(s)) => format!("s:{}", s),
        (ShwInst::Bool, V::Data(t, _)) => (if *t == 1 { "T" } else { "F" }).to_string(),
        (ShwInst::Opt(i), V::Data(t, fs)) => {
            if *t == 1 {
                format!("S{}", shw_value(i, &fs[0])?)
            } else {
                "N".to_string()
            }
        }
        (ShwInst::Pair(a, b), V::Rec(fs)) => format!("{}{}", shw_value(a, &fs[0].1)?, shw_value(b, &fs[1].1)?),
        _ => return Err(Fail::Stuck(format!("shw instance {:?} does not fit value", inst))),
    })
}

fn deref(v: V) -> V {
    let mut cur = v;
    for _ in 0..64 {
        let next = match &cur {
            V::Hole(h) => match &*h.borrow() {
                Some(v) => v.clone(),
                None => return cur.clone(),
            },
            _ => return cur,
        };
        cur = next;
    }
    // a hole that (transitively) contains itself: `rec let x = x`
    V::Hole(Rc::new(RefCell::new(None)))
}

const PRIMS: &[(&str, usize)] = &[
    ("error", 1),
    ("string_eq", 2),
    ("array.len", 1),
    ("array.index", 2),
    ("array.append", 2),
    ("array.slice", 3),
    ("string.len", 1),
    ("string.append", 2),
    ("string.is_empty", 1),
    ("fx.tick", 1),
    ("fx.tick2", 2),
    ("fx.boom", 1),
    ("c04m.tick", 1),
    ("c04m.boom", 1),
];

fn prim(name: &'static str) -> V {
    let arity = PRIMS.iter().find(|p| p.0 == name).unwrap().1;
    V::Prim(name, arity, Rc::new(Vec::new()))
}

pub fn initial_env(p: &Program) -> Env {
    let mut env: Env = None;
    env = bind(&env, "False", vbool(false));
    env = bind(&env, "True", vbool(true));
    env = bind(&env, "None", V::Data(0, Rc::new(Vec::new())));
    env = bind(&env, "Some", V::Ctor(1, 1, Rc::new(Vec::new())));
    env = bind(&env, "error", prim("error"));
    env = bind(&env, "string_eq", prim("string_eq"));
    let rec = |fields: &[(&str, &'static str)]| V::Rec(Rc::new(fields.iter().map(|(n, p)| (n.to_string(), prim(p))).collect()));
    env = bind(&env, "array", rec(&[("len", "array.len"), ("index", "array.index"), ("append", "array.append"), ("slice", "array.slice")]));
    env = bind(&env, "string", rec(&[("len", "string.len"), ("append", "string.append"), ("is_empty", "string.is_empty")]));
    env = bind(&env, "fx", rec(&[("tick", "fx.tick"), ("tick2", "fx.tick2"), ("boom", "fx.boom")]));
    env = bind(&env, "c04m", rec(&[("tick", "c04m.tick"), ("boom", "c04m.boom")]));
    for t in &p.types {
        for (i, (c, args)) in t.ctors.iter().enumerate() {
            let v = if args.is_empty() { V::Data(i as u32, Rc::new(Vec::new())) } else { V::Ctor(i as u32, args.len(), Rc::new(Vec::new())) };
            env = bind(&env, c, v);
        }
    }
    env
}

impl Interp {
    pub fn new(budget: u64) -> Interp {
        Interp { steps: 0, budget, effects: Vec::new(), lenient_arith: false, depth: 0, max_depth: 2500 }
    }

    pub fn run(&mut self, p: &Program) -> Result<V, Fail> {
        let env = initial_env(p);
        self.eval(p.body.as_ref().expect("program body"), &env)
    }

    fn tick(&mut self) -> Result<(), Fail> {
        self.steps += 1;
        if self.steps > self.budget {
            Err(Fail::Budget)
        } else {
            Ok(())
        }
    }

    pub fn eval(&mut self, e: &Expr, env: &Env) -> Result<V, Fail> {
        self.tick()?;
        self.depth += 1;
        if self.depth > self.max_depth {
            self.depth -= 1;
            return Err(Fail::Budget);
        }
        let r = self.eval_(e, env);
        self.depth -= 1;
        r
    }

    fn eval_(&mut self, e: &Expr, env: &Env) -> Result<V, Fail> {
        match e {
            Expr::Lit(l) => Ok(lit_value(l)),
            Expr::Unit => Ok(vunit()),
            Expr::Var(x) => match lookup(env, x) {
                Some(v) => Ok(v),
                None => Err(Fail::Stuck(format!("unbound variable {}", x))),
            },
            Expr::Lam(ps, body) => Ok(V::Clo(Rc::new(Closure { params: ps.clone(), body: (**body).clone(), env: env.clone() }), Rc::new(Vec::new()))),
            Expr::App(f, args) => {
                let fv = self.eval(f, env)?;
                let mut avs = Vec::with_capacity(args.len());
                for a in args {
                    avs.push(self.eval(a, env)?);
                }
                self.apply(fv, avs)
            }
            Expr::Let(p, params, value, body) => {
                let v = if params.is_empty() {
                    self.eval(value, env)?
                } else {
                    V::Clo(Rc::new(Closure { params: params.clone(), body: (**value).clone(), env: env.clone() }), Rc::new(Vec::new()))
                };
                let mut env2 = env.clone();
                if !self.pmatch(p, &v, &mut env2)? {
                    return Err(Fail::Match);
                }
                self.eval(body, &env2)
            }
            Expr::LetRec(binds, body) => {
                let mut env2 = env.clone();
                let mut holes = Vec::new();
                for (name, _, _) in binds {
                    let h = Rc::new(RefCell::new(None));
                    env2 = bind(&env2, name, V::Hole(h.clone()));
                    holes.push(h);
                }
                for (i, (_, params, value)) in binds.iter().enumerate() {
                    let v = if params.is_empty() {
                        self.eval(value, &env2)?
                    } else {
                        V::Clo(Rc::new(Closure { params: params.clone(), body: value.clone(), env: env2.clone() }), Rc::new(Vec::new()))
                    };
                    *holes[i].borrow_mut() = Some(v);
                }
                self.eval(body, &env2)
            }
            Expr::If(c, t, f) => match deref(self.eval(c, env)?) {
                V::Data(1, _) => self.eval(t, env),
                V::Data(0, _) => self.eval(f, env),
                v => Err(Fail::Stuck(format!("if on non-bool {:?}", v))),
            },
            Expr::Match(s, alts) => {
                let v = self.eval(s, env)?;
                for (p, body) in alts {
                    let mut env2 = env.clone();
                    if self.pmatch(p, &v, &mut env2)? {
                        return self.eval(body, &env2);
                    }
                }
                Err(Fail::Match)
            }
            Expr::Record(fs, base) => {
                // fields are evaluated in source order, then the base
                let mut out: Vec<(String, V)> = Vec::new();
                for (n, fe) in fs {
                    let v = self.eval(fe, env)?;
                    out.push((n.clone(), v));
                }
                if let Some(bs) = base {
                    // result layout (observed and stated by the reported type): fields that are
                    // new come first in literal order, then the base's fields in the base's order
                    // with overridden values in place
                    match deref(self.eval(bs, env)?) {
                        V::Rec(bfs) => {
                            let lits = std::mem::take(&mut out);
                            for (n, v) in lits.iter() {
                                if !bfs.iter().any(|(m, _)| m == n) {
                                    out.push((n.clone(), v.clone()));
                                }
                            }
                            for (n, v) in bfs.iter() {
                                match lits.iter().find(|(m, _)| m == n) {
                                    Some((_, nv)) => out.push((n.clone(), nv.clone())),
                                    None => out.push((n.clone(), v.clone())),
                                }
                            }
                        }
                        V::Data(0, fs0) if fs0.is_empty() => {}
                        v => return Err(Fail::Stuck(format!("record base is {:?}", v))),
                    }
                }
                if out.is_empty() {
                    return Ok(vunit());
                }
                Ok(V::Rec(Rc::new(out)))
            }
            Expr::Proj(r, f) => match deref(self.eval(r, env)?) {
                V::Rec(fs) => fs.iter().find(|(n, _)| n == f).map(|(_, v)| v.clone()).ok_or_else(|| Fail::Stuck(format!("no field {}", f))),
                v => Err(Fail::Stuck(format!("projection .{} on {:?}", f, v))),
            },
            Expr::Tuple(es) => {
                let mut out = Vec::new();
                for (i, x) in es.iter().enumerate() {
                    out.push((format!("_{}", i), self.eval(x, env)?));
                }
                Ok(V::Rec(Rc::new(out)))
            }
            Expr::Array(es) => {
                let mut out = Vec::new();
                for x in es {
                    out.push(self.eval(x, env)?);
                }
                Ok(V::Array(Rc::new(out)))
            }
            Expr::BinOp(op, l, r) => {
                if op == "&&" {
                    return match deref(self.eval(l, env)?) {
                        V::Data(0, _) => Ok(vbool(false)),
                        _ => self.eval(r, env),
                    };
                }
                if op == "||" {
                    return match deref(self.eval(l, env)?) {
                        V::Data(1, _) => Ok(vbool(true)),
                        _ => self.eval(r, env),
                    };
                }
                let lv = deref(self.eval(l, env)?);
                let rv = deref(self.eval(r, env)?);
                self.binop(op, lv, rv)
            }
            Expr::Do(x, bound, body) => match deref(self.eval(bound, env)?) {
                V::Data(0, _) => Ok(V::Data(0, Rc::new(Vec::new()))),
                V::Data(1, fs) => {
                    let env2 = match x {
                        Some(x) => bind(env, x, fs[0].clone()),
                        None => env.clone(),
                    };
                    self.eval(body, &env2)
                }
                v => Err(Fail::Stuck(format!("do on {:?}", v))),
            },
            Expr::Shw(inst, a) => {
                let v = self.eval(a, env)?;
                Ok(vstr(shw_value(inst, &v)?))
            }
        }
    }

    fn arith_fail(&self) -> Result<V, Fail> {
        if self.lenient_arith {
            Ok(V::Int(0))
        } else {
            Err(Fail::Arith)
        }
    }

    fn binop(&mut self, op: &str, l: V, r: V) -> Result<V, Fail> {
        use V::*;
        Ok(match (op, &l, &r) {
            ("#Int+", Int(a), Int(b)) | ("+", Int(a), Int(b)) => match a.checked_add(*b) {
                Some(x) => Int(x),
                None => return self.arith_fail(),
            },
            ("#Int-", Int(a), Int(b)) | ("-", Int(a), Int(b)) => match a.checked_sub(*b) {
                Some(x) => Int(x),
                None => return self.arith_fail(),
            },
            ("#Int*", Int(a), Int(b)) | ("*", Int(a), Int(b)) => match a.checked_mul(*b) {
                Some(x) => Int(x),
                None => return self.arith_fail(),
            },
            ("#Int/", Int(a), Int(b)) | ("/", Int(a), Int(b)) => match a.checked_div(*b) {
                Some(x) => Int(x),
                None => return self.arith_fail(),
            },
            ("#Int<", Int(a), Int(b)) | ("<", Int(a), Int(b)) => vbool(a < b),
            ("#Int==", Int(a), Int(b)) | ("==", Int(a), Int(b)) => vbool(a == b),
            ("<=", Int(a), Int(b)) => vbool(a <= b),
            (">", Int(a), Int(b)) => vbool(a > b),
            (">=", Int(a), Int(b)) => vbool(a >= b),
            ("/=", Int(a), Int(b)) => vbool(a != b),
            ("#Char<", Char(a), Char(b)) => vbool(a < b),
            ("#Char==", Char(a), Char(b)) => vbool(a == b),
            ("#Byte+", Byte(a), Byte(b)) => match a.checked_add(*b) {
                Some(x) => Byte(x),
                None => return Err(Fail::Arith),
            },
            ("#Byte-", Byte(a), Byte(b)) => match a.checked_sub(*b) {
                Some(x) => Byte(x),
                None => return Err(Fail::Arith),
            },
            ("#Byte*", Byte(a), Byte(b)) => match a.checked_mul(*b) {
                Some(x) => Byte(x),
                None => return Err(Fail::Arith),
            },
            ("#Byte/", Byte(a), Byte(b)) => match a.checked_div(*b) {
                Some(x) => Byte(x),
                None => return Err(Fail::Arith),
            },
            ("#Byte<", Byte(a), Byte(b)) => vbool(a < b),
            ("#Byte==", Byte(a), Byte(b)) => vbool(a == b),
            ("#Float+", Float(a), Float(b)) | ("+", Float(a), Float(b)) => Float(a + b),
            ("#Float-", Float(a), Float(b)) | ("-", Float(a), Float(b)) => Float(a - b),
            ("#Float*", Float(a), Float(b)) | ("*", Float(a), Float(b)) => Float(a * b),
            ("#Float/", Float(a), Float(b)) | ("/", Float(a), Float(b)) => Float(a / b),
            ("#Float<", Float(a), Float(b)) | ("<", Float(a), Float(b)) => vbool(a < b),
            ("#Float==", Float(a), Float(b)) | ("==", Float(a), Float(b)) => vbool(a == b),
            ("==", Str(a), Str(b)) => vbool(a == b),
            ("<", Str(a), Str(b)) => vbool(a < b),
            ("++", Str(a), Str(b)) => vstr(format!("{}{}", a, b)),
            _ => return Err(Fail::Stuck(format!("binop {} on {:?} {:?}", op, l, r))),
        })
    }

    pub fn apply(&mut self, f: V, mut args: Vec<V>) -> Result<V, Fail> {
        if args.is_empty() {
            return Ok(f);
        }
        self.tick()?;
        match deref(f) {
            V::Clo(c, bound) => {
                let need = c.params.len() - bound.len();
                if args.len() < need {
                    let mut b2 = (*bound).clone();
                    b2.append(&mut args);
                    return Ok(V::Clo(c, Rc::new(b2)));
                }
                let rest = args.split_off(need);
                let mut env = c.env.clone();
                for (p, v) in c.params.iter().zip(bound.iter().cloned().chain(args.into_iter())) {
                    env = bind(&env, p, v);
                }
                let r = self.eval(&c.body, &env)?;
                self.apply(r, rest)
            }
            V::Ctor(tag, arity, bound) => {
                let need = arity - bound.len();
                if args.len() < need {
                    let mut b2 = (*bound).clone();
                    b2.append(&mut args);
                    return Ok(V::Ctor(tag, arity, Rc::new(b2)));
                }
                if args.len() > need {
                    return Err(Fail::Stuck("constructor over-applied".into()));
                }
                let mut b2 = (*bound).clone();
                b2.append(&mut args);
                Ok(V::Data(tag, Rc::new(b2)))
            }
            V::Prim(name, arity, bound) => {
                let need = arity - bound.len();
                if args.len() < need {
                    let mut b2 = (*bound).clone();
                    b2.append(&mut args);
                    return Ok(V::Prim(name, arity, Rc::new(b2)));
                }
                let rest = args.split_off(need);
                let mut all = (*bound).clone();
                all.append(&mut args);
                let r = self.prim(name, all)?;
                self.apply(r, rest)
            }
            v => Err(Fail::Stuck(format!("apply non-function {:?}", v))),
        }
    }

    fn prim(&mut self, name: &str, args: Vec<V>) -> Result<V, Fail> {
        let a: Vec<V> = args.into_iter().map(deref).collect();
        Ok(match (name, a.as_slice()) {
            ("error", [V::Str(m)]) => return Err(Fail::Explicit(m.to_string())),
            ("string_eq", [V::Str(x), V::Str(y)]) => vbool(x == y),
            ("array.len", [V::Array(x)]) => V::Int(x.len() as i64),
            ("array.index", [V::Array(x), V::Int(i)]) => {
                if *i < 0 || *i as usize >= x.len() {
                    return Err(Fail::Stuck("array index out of bounds (generator must avoid)".into()));
                }
                x[*i as usize].clone()
            }
            ("array.append", [V::Array(x), V::Array(y)]) => {
                let mut v = (**x).clone();
                v.extend(y.iter().cloned());
                V::Array(Rc::new(v))
            }
            ("array.slice", [V::Array(x), V::Int(s), V::Int(e)]) => {
                if *s < 0 || *e < *s || *e as usize > x.len() {
                    return Err(Fail::Stuck("array slice out of bounds (generator must avoid)".into()));
                }
                V::Array(Rc::new(x[*s as usize..*e as usize].to_vec()))
            }
            ("string.len", [V::Str(x)]) => V::Int(x.len() as i64),
            ("string.is_empty", [V::Str(x)]) => vbool(x.is_empty()),
            ("string.append", [V::Str(x), V::Str(y)]) => vstr(format!("{}{}", x, y)),
            ("fx.tick", [V::Int(i)]) => {
                self.effects.push(("tick".into(), *i));
                V::Int(*i)
            }
            ("fx.tick2", [V::Int(i), V::Int(j)]) => {
                self.effects.push(("tick2".into(), i.wrapping_mul(1000).wrapping_add(*j)));
                V::Int(*j)
            }
            ("c04m.tick", [V::Int(i)]) => {
                let j = match i.checked_add(100) {
                    Some(j) => j,
                    None => return self.arith_fail(),
                };
                self.effects.push(("tick".into(), j));
                V::Int(j)
            }
            ("c04m.boom", [_]) => return Err(Fail::Explicit("mb".into())),
            ("fx.boom", [V::Int(i)]) => {
                self.effects.push(("boom".into(), *i));
                return Err(Fail::Explicit(format!("boom{}", i)));
            }
            _ => return Err(Fail::Stuck(format!("prim {} on {:?}", name, a))),
        })
    }

    fn pmatch(&mut self, p: &Pat, v: &V, env: &mut Env) -> Result<bool, Fail> {
        let v = deref(v.clone());
        Ok(match p {
            Pat::Wild => true,
            Pat::Var(x) => {
                *env = bind(env, x, v);
                true
            }
            Pat::As(x, inner) => {
                *env = bind(env, x, v.clone());
                self.pmatch(inner, &v, env)?
            }
            Pat::Lit(l) => match (l, &v) {
                (Lit::Int(a), V::Int(b)) => a == b,
                (Lit::Float(a), V::Float(b)) => a == b,
                (Lit::Byte(a), V::Byte(b)) => a == b,
                (Lit::Char(a), V::Char(b)) => a == b,
                (Lit::Str(a), V::Str(b)) => a == b.as_str(),
                _ => return Err(Fail::Stuck("literal pattern type".into())),
            },
            Pat::Ctor(c, ps) => {
                let tag = match lookup(env, c) {
                    Some(V::Data(t, _)) => t,
                    Some(V::Ctor(t, _, _)) => t,
                    _ => return Err(Fail::Stuck(format!("unknown constructor {}", c))),
                };
                match &v {
                    V::Data(t, fs) => {
                        if *t != tag {
                            false
                        } else {
                            if fs.len() != ps.len() {
                                return Err(Fail::Stuck("constructor pattern arity".into()));
                            }
                            for (sp, sv) in ps.iter().zip(fs.iter()) {
                                if !self.pmatch(sp, sv, env)? {
                                    return Ok(false);
                                }
                            }
                            true
                        }
                    }
                    _ => return Err(Fail::Stuck("ctor pattern on non-data".into())),
                }
            }
            Pat::Record(fs) => match &v {
                V::Rec(vs) => {
                    for (n, sp) in fs {
                        let fv = match vs.iter().find(|(m, _)| m == n) {
                            Some((_, fv)) => fv.clone(),
                            None => return Err(Fail::Stuck(format!("record pattern: no field {}", n))),
                        };
                        match sp {
                            None => *env = bind(env, n, fv),
                            Some(sp) => {
                                if !self.pmatch(sp, &fv, env)? {
                                    return Ok(false);
                                }
                            }
                        }
                    }
                    true
                }
                V::Data(0, e) if e.is_empty() && fs.is_empty() => true,
                _ => return Err(Fail::Stuck("record pattern on non-record".into())),
            },
            Pat::Tuple(ps) => match &v {
                V::Rec(vs) => {
                    if vs.len() != ps.len() {
                        return Err(Fail::Stuck("tuple pattern arity".into()));
                    }
                    for (sp, (_, sv)) in ps.iter().zip(vs.iter()) {
                        if !self.pmatch(sp, sv, env)? {
                            return Ok(false);
                        }
                    }
                    true
                }
                V::Data(0, e) if e.is_empty() && ps.is_empty() => true,
                _ => return Err(Fail::Stuck("tuple pattern on non-tuple".into())),
            },
        })
    }
}

pub fn lit_value(l: &Lit) -> V {
    match l {
        Lit::Int(i) => V::Int(*i),
        Lit::Float(f) => V::Float(*f),
        Lit::Byte(b) => V::Byte(*b),
        Lit::Char(c) => V::Char(*c),
        Lit::Str(s) => vstr(s.clone()),
    }
}

/// Outcome in the vocabulary shared with vmutil::Outcome
#[derive(Clone, Debug, PartialEq)]
pub enum RefOutcome {
    Value(String),
    Fail(Fail),
}

pub fn run_reference(p: &Program, budget: u64, lenient: bool) -> (RefOutcome, Vec<(String, i64)>, u64) {
    let mut it = Interp::new(budget);
    it.lenient_arith = lenient;
    let r = it.run(p);
    let o = match r {
        Ok(v) => {
            let mut s = String::new();
            render(&v, &mut s);
            RefOutcome::Value(s)
        }
        Err(f) => RefOutcome::Fail(f),
    };
    (o, it.effects, it.steps)
}
