//! G-mut: text-level, token-aware mutations of program text (used by C02, C09, C16, C20).
use crate::rng::Rng;

#[derive(Clone, Debug, PartialEq)]
pub struct Tok {
    pub start: usize,
    pub end: usize,
    pub kind: TokKind,
}

#[derive(Clone, Copy, Debug, PartialEq)]
pub enum TokKind {
    Ident,
    Int,
    Float,
    Str,
    Char,
    Op,
    Punct,
    Comment,
}

/// A small scanner good enough to find token boundaries in Gluon text (strings, chars, comments,
/// identifiers, numbers, operators, brackets)
pub fn scan(src: &str) -> Vec<Tok> {
    let b = src.as_bytes();
    let mut i = 0;
    let mut out = Vec::new();
    while i < b.len() {
        let c = b[i];
        if c.is_ascii_whitespace() {
            i += 1;
            continue;
        }
        let start = i;
        if c == b'/' && i + 1 < b.len() && b[i + 1] == b'/' {
            while i < b.len() && b[i] != b'\n' {
                i += 1;
            }
            out.push(Tok { start, end: i, kind: TokKind::Comment });
        } else if c == b'/' && i + 1 < b.len() && b[i + 1] == b'*' {
            i += 2;
            while i + 1 < b.len() && !(b[i] == b'*' && b[i + 1] == b'/') {
                i += 1;
            }
            i = (i + 2).min(b.len());
            out.push(Tok { start, end: i, kind: TokKind::Comment });
        } else if c == b'"' {
            i += 1;
            while i < b.len() && b[i] != b'"' {
                if b[i] == b'\\' {
                    i += 1;
                }
                i += 1;
            }
            i = (i + 1).min(b.len());
            out.push(Tok { start, end: i, kind: TokKind::Str });
        } else if c == b'\'' && i + 2 < b.len() && (b[i + 2] == b'\'' || (b[i + 1] == b'\\' && i + 3 < b.len() && b[i + 3] == b'\'')) {
            i += if b[i + 1] == b'\\' { 4 } else { 3 };
            out.push(Tok { start, end: i, kind: TokKind::Char });
        } else if c.is_ascii_digit() {
            let mut float = false;
            while i < b.len() && (b[i].is_ascii_alphanumeric() || b[i] == b'.' && i + 1 < b.len() && b[i + 1].is_ascii_digit()) {
                if b[i] == b'.' {
                    float = true;
                }
                i += 1;
            }
            out.push(Tok { start, end: i, kind: if float { TokKind::Float } else { TokKind::Int } });
        } else if c.is_ascii_alphabetic() || c == b'_' {
            while i < b.len() && (b[i].is_ascii_alphanumeric() || b[i] == b'_' || b[i] == b'\'') {
                i += 1;
            }
            out.push(Tok { start, end: i, kind: TokKind::Ident });
        } else if c == b'#' && i + 1 < b.len() && b[i + 1].is_ascii_alphabetic() {
            // primitive operator `#Int+`, `#Float==` ...: one token
            i += 1;
            while i < b.len() && b[i].is_ascii_alphabetic() {
                i += 1;
            }
            while i < b.len() && b[i] < 128 && !b[i].is_ascii_alphanumeric() && !b[i].is_ascii_whitespace() && !b"()[]{},\"'_".contains(&b[i]) {
                i += 1;
            }
            out.push(Tok { start, end: i, kind: TokKind::Op });
        } else if b"()[]{},".contains(&c) {
            i += 1;
            out.push(Tok { start, end: i, kind: TokKind::Punct });
        } else if c < 128 {
            while i < b.len() && b[i] < 128 && !b[i].is_ascii_alphanumeric() && !b[i].is_ascii_whitespace() && !b"()[]{},\"'_".contains(&b[i]) {
                i += 1;
            }
            if i == start {
                i += 1;
            }
            out.push(Tok { start, end: i, kind: TokKind::Op });
        } else {
            // non-ASCII outside strings: skip the whole scalar value
            i += 1;
            while i < b.len() && (b[i] & 0xC0) == 0x80 {
                i += 1;
            }
            out.push(Tok { start, end: i, kind: TokKind::Op });
        }
    }
    out
}

const KEYWORDS: &[&str] = &["let", "in", "rec", "if", "then", "else", "match", "with", "type", "do", "seq", "import", "forall"];

/// One random mutation; returns (mutated text, description)
pub fn mutate(src: &str, rng: &mut Rng) -> (String, &'static str) {
    let toks: Vec<Tok> = scan(src).into_iter().filter(|t| t.kind != TokKind::Comment).collect();
    if toks.len() < 3 {
        return (src.to_string(), "none");
    }
    let text = |t: &Tok| &src[t.start..t.end];
    let idents: Vec<&Tok> = toks.iter().filter(|t| t.kind == TokKind::Ident && !KEYWORDS.contains(&text(t))).collect();
    let replace = |t: &Tok, with: &str| format!("{}{}{}", &src[..t.start], with, &src[t.end..]);
    match rng.below(9) {
        0 | 1 if idents.len() >= 2 => {
            // rename one identifier occurrence to another identifier of the program
            let a = idents[rng.below(idents.len())];
            let b = idents[rng.below(idents.len())];
            (replace(a, text(b)), "rename-identifier")
        }
        2 => {
            // replace a literal by a literal of another type
            let lits: Vec<&Tok> = toks.iter().filter(|t| matches!(t.kind, TokKind::Int | TokKind::Float | TokKind::Str | TokKind::Char)).collect();
            if lits.is_empty() {
                return (src.to_string(), "none");
            }
            let t = lits[rng.below(lits.len())];
            let with = match t.kind {
                TokKind::Int => *rng.pick(&["\"s\"", "1.5", "'c'", "()"]),
                TokKind::Float => *rng.pick(&["1", "\"s\""]),
                TokKind::Str => *rng.pick(&["1", "2.5", "'x'"]),
                _ => *rng.pick(&["1", "\"q\""]),
            };
            (replace(t, with), "retype-literal")
        }
        3 => {
            let t = &toks[rng.below(toks.len())];
            (format!("{}{}", &src[..t.start], &src[t.end..]), "delete-token")
        }
        4 => {
            let t = &toks[rng.below(toks.len())];
            (format!("{}{} {}", &src[..t.end], "", &src[t.start..]), "duplicate-token")
        }
        5 => {
            let i = rng.below(toks.len() - 1);
            let (a, b) = (&toks[i], &toks[i + 1]);
            (format!("{}{}{}{}{}", &src[..a.start], text(b), &src[a.end..b.start], text(a), &src[b.end..]), "swap-tokens")
        }
        6 => {
            // re-indent one line
            let lines: Vec<&str> = src.lines().collect();
            let k = rng.below(lines.len());
            let mut out = String::new();
            for (i, l) in lines.iter().enumerate() {
                if i == k {
                    let trimmed = l.trim_start();
                    let ind = rng.below(12);
                    out.push_str(&" ".repeat(ind));
                    out.push_str(trimmed);
                } else {
                    out.push_str(l);
                }
                out.push('\n');
            }
            (out, "reindent-line")
        }
        7 => {
            let t = &toks[rng.below(toks.len())];
            (src[..t.start].to_string(), "truncate")
        }
        _ => {
            // replace an operator / field name
            let ops: Vec<&Tok> = toks.iter().filter(|t| t.kind == TokKind::Op).collect();
            if ops.is_empty() {
                return (src.to_string(), "none");
            }
            let t = ops[rng.below(ops.len())];
            (replace(t, *rng.pick(&["#Int+", "#Int==", "#Float*", "&&", "->", "=", "|", "."])), "replace-operator")
        }
    }
}
