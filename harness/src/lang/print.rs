//! Concrete-syntax printers for the harness AST. The layout discipline: the first token of an
//! expression printed at indentation `ind` sits at column >= ind and every later line of that
//! expression starts at a column > ind, except closing tokens (`in`, `else`, `)`, `}`, `]`) and
//! the `|` of the expression's own `match`. Compound sub-expressions are parenthesised with the
//! content on its own lines, which resets the offside constraints of the layout algorithm.
use super::ast::*;

#[derive(Clone, Copy, Debug, PartialEq)]
pub struct Style {
    /// print `in` explicitly after let bindings (otherwise layout-only)
    pub explicit_in: bool,
    /// wrap every non-atomic operand in parentheses even where not needed
    pub redundant_parens: bool,
    /// insert comments and blank lines between statements
    pub comments: bool,
    /// indentation step
    pub step: usize,
    /// keep small compound operands on one line
    pub compact: bool,
}

impl Style {
    pub const EXPLICIT: Style = Style { explicit_in: true, redundant_parens: false, comments: false, step: 4, compact: true };
    pub const LAYOUT: Style = Style { explicit_in: false, redundant_parens: false, comments: false, step: 4, compact: true };
    pub fn from_bits(b: u32) -> Style {
        Style {
            explicit_in: b & 1 != 0,
            redundant_parens: b & 2 != 0,
            comments: b & 4 != 0,
            step: if b & 8 != 0 { 2 } else { 4 },
            compact: b & 16 != 0,
        }
    }
}

pub struct Printer {
    pub style: Style,
    out: String,
    comment_ctr: usize,
}

pub fn lit_text(l: &Lit) -> String {
    match l {
        Lit::Int(i) => format!("{}", i),
        Lit::Float(f) => {
            let s = format!("{:?}", f);
            if s.contains('.') || s.contains('e') || s.contains("inf") || s.contains("NaN") {
                s
            } else {
                format!("{}.0", s)
            }
        }
        Lit::Byte(x) => format!("{}b", x),
        Lit::Char(c) => match c {
            '\'' => "'\\''".to_string(),
            '\\' => "'\\\\'".to_string(),
            '\n' => "'\\n'".to_string(),
            '\t' => "'\\t'".to_string(),
            '\r' => "'\\r'".to_string(),
            c => format!("'{}'", c),
        },
        Lit::Str(s) => str_text(s),
    }
}

pub fn str_text(s: &str) -> String {
    let mut o = String::from("\"");
    for c in s.chars() {
        match c {
            '"' => o.push_str("\\\""),
            '\\' => o.push_str("\\\\"),
            '\n' => o.push_str("\\n"),
            '\t' => o.push_str("\\t"),
            '\r' => o.push_str("\\r"),
            c => o.push(c),
        }
    }
    o.push('"');
    o
}

pub fn is_operator_name(s: &str) -> bool {
    s.chars().next().map_or(false, |c| !(c.is_alphanumeric() || c == '_')) && !s.starts_with('#') || s.starts_with('#')
}

fn is_atom(e: &Expr) -> bool {
    match e {
        Expr::Lit(Lit::Int(i)) => *i >= 0,
        Expr::Lit(Lit::Float(f)) => *f >= 0.0 && !f.is_sign_negative(),
        Expr::Lit(_) | Expr::Var(_) | Expr::Unit => true,
        Expr::Record(fs, base) => fs.iter().all(|(_, e)| is_small(e)) && base.as_ref().map_or(true, |b| is_small(b)) && fs.len() <= 4,
        Expr::Tuple(es) | Expr::Array(es) => es.iter().all(is_small) && es.len() <= 4,
        Expr::Proj(e, _) => is_atom(e) && !matches!(**e, Expr::Lit(_)),
        _ => false,
    }
}

/// small enough to print inline
fn is_small(e: &Expr) -> bool {
    match e {
        Expr::Lit(_) | Expr::Var(_) | Expr::Unit => true,
        Expr::Proj(e, _) => is_small(e),
        Expr::App(f, args) => is_atomic_small(f) && args.iter().all(is_atomic_small) && args.len() <= 3,
        Expr::BinOp(_, l, r) => is_atomic_small(l) && is_atomic_small(r),
        Expr::Tuple(es) | Expr::Array(es) => es.len() <= 3 && es.iter().all(is_atomic_small),
        Expr::Record(fs, base) => fs.len() <= 3 && fs.iter().all(|(_, e)| is_atomic_small(e)) && base.as_ref().map_or(true, |b| is_atomic_small(b)),
        _ => false,
    }
}

fn is_atomic_small(e: &Expr) -> bool {
    match e {
        Expr::Lit(Lit::Int(i)) => *i >= 0,
        Expr::Lit(Lit::Float(f)) => !f.is_sign_negative(),
        Expr::Lit(_) | Expr::Var(_) | Expr::Unit => true,
        Expr::Proj(e, _) => matches!(**e, Expr::Var(_)),
        _ => false,
    }
}

pub fn ident_text(name: &str) -> String {
    if is_operator_name(name) && !name.starts_with('#') {
        format!("({})", name)
    } else if name.starts_with('#') {
        format!("({})", name)
    } else {
        name.to_string()
    }
}

pub fn pat_text(p: &Pat, nested: bool) -> String {
    match p {
        Pat::Wild => "_".into(),
        Pat::Var(v) => ident_text(v),
        Pat::Lit(l) => lit_text(l),
        Pat::Ctor(c, args) => {
            if args.is_empty() {
                c.clone()
            } else {
                let s = format!("{} {}", c, args.iter().map(|a| pat_text(a, true)).collect::<Vec<_>>().join(" "));
                if nested {
                    format!("({})", s)
                } else {
                    s
                }
            }
        }
        Pat::Record(fs) => {
            if fs.is_empty() {
                return "{ }".into();
            }
            let inner: Vec<String> = fs
                .iter()
                .map(|(f, p)| match p {
                    None => f.clone(),
                    Some(p) => format!("{} = {}", f, pat_text(p, false)),
                })
                .collect();
            format!("{{ {} }}", inner.join(", "))
        }
        Pat::Tuple(ps) => format!("({})", ps.iter().map(|p| pat_text(p, false)).collect::<Vec<_>>().join(", ")),
        Pat::As(n, p) => format!("{}@{}", n, pat_text(p, true)),
    }
}

pub fn ty_text(t: &Ty, types: &[TypeDecl], nested: bool) -> String {
    match t {
        Ty::Int => "Int".into(),
        Ty::Float => "Float".into(),
        Ty::Byte => "Byte".into(),
        Ty::Char => "Char".into(),
        Ty::Str => "String".into(),
        Ty::Bool => "Bool".into(),
        Ty::Unit => "()".into(),
        Ty::Tuple(ts) => format!("({})", ts.iter().map(|t| ty_text(t, types, false)).collect::<Vec<_>>().join(", ")),
        Ty::Record(fs) => {
            if fs.is_empty() {
                "{ }".into()
            } else {
                format!("{{ {} }}", fs.iter().map(|(n, t)| format!("{} : {}", n, ty_text(t, types, false))).collect::<Vec<_>>().join(", "))
            }
        }
        Ty::User(i) => types[*i].name.clone(),
        Ty::Option(t) => {
            let s = format!("Option {}", ty_text(t, types, true));
            if nested {
                format!("({})", s)
            } else {
                s
            }
        }
        Ty::Array(t) => {
            let s = format!("Array {}", ty_text(t, types, true));
            if nested {
                format!("({})", s)
            } else {
                s
            }
        }
        Ty::Fun(ps, r) => {
            let mut parts: Vec<String> = ps.iter().map(|p| ty_text(p, types, matches!(p, Ty::Fun(..)))).map(|s| s).collect();
            // a function-typed parameter must be parenthesised
            for (i, p) in ps.iter().enumerate() {
                if let Ty::Fun(..) = p {
                    parts[i] = format!("({})", ty_text(p, types, false));
                } else {
                    parts[i] = ty_text(p, types, true);
                }
            }
            parts.push(ty_text(r, types, true));
            let s = parts.join(" -> ");
            if nested {
                format!("({})", s)
            } else {
                s
            }
        }
    }
}

impl Printer {
    pub fn new(style: Style) -> Printer {
        Printer { style, out: String::new(), comment_ctr: 0 }
    }

    fn col(&self) -> usize {
        // byte columns: the layout algorithm compares byte-based columns
        match self.out.rfind('\n') {
            Some(i) => self.out[i + 1..].len(),
            None => self.out.len(),
        }
    }

    fn nl(&mut self, ind: usize) {
        // never leave trailing spaces
        while self.out.ends_with(' ') {
            self.out.pop();
        }
        self.out.push('\n');
        for _ in 0..ind {
            self.out.push(' ');
        }
    }

    fn comment_line(&mut self, ind: usize) {
        if self.style.comments {
            self.comment_ctr += 1;
            let k = self.comment_ctr;
            if k % 3 == 0 {
                self.out.push_str(&format!("// c{}", k));
            } else if k % 3 == 1 {
                self.out.push_str(&format!("/* c{} */", k));
            } else {
                // blank line
            }
            self.nl(ind);
        }
    }

    /// operand position: atoms inline, everything else in parentheses
    fn operand(&mut self, e: &Expr, ind: usize) {
        if is_atom(e) && !self.style.redundant_parens {
            self.expr(e, ind);
        } else if is_atom(e) && matches!(e, Expr::Lit(_) | Expr::Var(_) | Expr::Unit) {
            self.out.push('(');
            self.expr(e, ind);
            self.out.push(')');
        } else if self.style.compact && is_small(e) {
            self.out.push('(');
            self.expr(e, ind);
            self.out.push(')');
        } else {
            self.paren_block(e, ind);
        }
    }

    /// multi-line parenthesised expression: the content is indented relative to the column of
    /// the `(` itself (a block opened after an `in` inside the parentheses takes the position of
    /// the `(` as its reference column)
    fn paren_block(&mut self, e: &Expr, ind: usize) {
        let inner = self.col().max(ind) + self.style.step;
        self.out.push('(');
        self.nl(inner);
        self.expr(e, inner);
        self.nl(inner);
        self.out.push(')');
    }

    /// a block body after `=`, `->`, `then`, `else`: inline when small, otherwise on a new line
    fn block(&mut self, e: &Expr, ind: usize) {
        if self.style.compact && is_small(e) {
            self.out.push(' ');
            self.expr(e, ind + self.style.step);
        } else {
            let inner = ind + self.style.step;
            self.nl(inner);
            self.expr(e, inner);
        }
    }

    pub fn expr(&mut self, e: &Expr, ind: usize) {
        match e {
            Expr::Lit(l) => {
                let neg = match l {
                    Lit::Int(i) => *i < 0,
                    Lit::Float(f) => f.is_sign_negative(),
                    _ => false,
                };
                // negative literals are only written in parenthesised form
                if neg {
                    self.out.push('(');
                    self.out.push_str(&lit_text(l));
                    self.out.push(')');
                } else {
                    self.out.push_str(&lit_text(l));
                }
            }
            Expr::Var(v) => self.out.push_str(&ident_text(v)),
            Expr::Unit => self.out.push_str("()"),
            Expr::Lam(ps, body) => {
                self.out.push('\\');
                self.out.push_str(&ps.iter().map(|p| ident_text(p)).collect::<Vec<_>>().join(" "));
                self.out.push_str(" ->");
                self.block(body, ind);
            }
            Expr::App(f, args) => {
                self.operand(f, ind);
                for a in args {
                    self.out.push(' ');
                    self.operand(a, ind);
                }
            }
            Expr::BinOp(op, l, r) => {
                self.operand(l, ind);
                self.out.push(' ');
                self.out.push_str(op);
                self.out.push(' ');
                self.operand(r, ind);
            }
            Expr::Let(p, params, value, body) => {
                self.out.push_str("let ");
                // `let Some x = ..` would define a function called Some
                self.out.push_str(&pat_text(p, true));
                for q in params {
                    self.out.push(' ');
                    self.out.push_str(&ident_text(q));
                }
                self.out.push_str(" =");
                self.block(value, ind);
                self.nl(ind);
                if self.style.explicit_in {
                    self.out.push_str("in");
                    self.nl(ind);
                }
                self.comment_line(ind);
                self.expr(body, ind);
            }
            Expr::LetRec(binds, body) => {
                for (i, (name, params, value)) in binds.iter().enumerate() {
                    if i == 0 {
                        self.out.push_str("rec let ");
                    } else {
                        self.out.push_str("let ");
                    }
                    self.out.push_str(&ident_text(name));
                    for q in params {
                        self.out.push(' ');
                        self.out.push_str(&ident_text(q));
                    }
                    self.out.push_str(" =");
                    self.block(value, ind);
                    self.nl(ind);
                }
                // a rec group is always closed explicitly (a following `let` would join it)
                self.out.push_str("in");
                self.nl(ind);
                self.comment_line(ind);
                self.expr(body, ind);
            }
            Expr::If(c, t, f) => {
                self.out.push_str("if ");
                if is_small(c) {
                    self.expr(c, ind + self.style.step);
                } else {
                    self.operand(c, ind);
                }
                self.out.push_str(" then");
                self.block(t, ind);
                self.nl(ind);
                self.out.push_str("else");
                self.block(f, ind);
            }
            Expr::Match(s, alts) => {
                self.out.push_str("match ");
                if is_small(s) {
                    self.expr(s, ind + self.style.step);
                } else {
                    self.operand(s, ind);
                }
                self.out.push_str(" with");
                for (p, body) in alts {
                    self.nl(ind);
                    self.out.push_str("| ");
                    self.out.push_str(&pat_text(p, false));
                    self.out.push_str(" ->");
                    self.block(body, ind);
                }
            }
            Expr::Record(fs, base) => {
                if fs.is_empty() && base.is_none() {
                    self.out.push_str("{ }");
                    return;
                }
                self.out.push_str("{ ");
                for (i, (n, v)) in fs.iter().enumerate() {
                    if i > 0 {
                        self.out.push_str(", ");
                    }
                    self.out.push_str(&ident_text(n));
                    // punning `{ x }` when the value is the variable of the same name
                    if let Expr::Var(x) = v {
                        if x == n && !self.style.redundant_parens {
                            continue;
                        }
                    }
                    self.out.push_str(" = ");
                    self.field_value(v, ind);
                }
                if let Some(bs) = base {
                    if !fs.is_empty() {
                        self.out.push_str(", ");
                    }
                    self.out.push_str(".. ");
                    self.operand(bs, ind);
                }
                self.out.push_str(" }");
            }
            Expr::Proj(e, f) => {
                match **e {
                    Expr::Var(_) => self.expr(e, ind),
                    Expr::Proj(..) => self.expr(e, ind),
                    _ => {
                        // always parenthesise a non-variable projection base
                        if is_small(e) {
                            self.out.push('(');
                            self.expr(e, ind);
                            self.out.push(')');
                        } else {
                            self.paren_block(e, ind);
                        }
                    }
                }
                self.out.push('.');
                self.out.push_str(&ident_text(f));
            }
            Expr::Tuple(es) => {
                self.out.push('(');
                for (i, v) in es.iter().enumerate() {
                    if i > 0 {
                        self.out.push_str(", ");
                    }
                    self.field_value(v, ind);
                }
                self.out.push(')');
            }
            Expr::Array(es) => {
                self.out.push('[');
                for (i, v) in es.iter().enumerate() {
                    if i > 0 {
                        self.out.push_str(", ");
                    }
                    self.field_value(v, ind);
                }
                self.out.push(']');
            }
            Expr::Shw(_, a) => {
                self.out.push_str("shw ");
                self.operand(a, ind);
            }
            Expr::Do(v, bound, body) => {
                match v {
                    Some(x) => {
                        self.out.push_str("do ");
                        self.out.push_str(&ident_text(x));
                        self.out.push_str(" =");
                        self.block(bound, ind);
                    }
                    None => {
                        self.out.push_str("seq ");
                        self.operand(bound, ind);
                    }
                }
                self.nl(ind);
                self.expr(body, ind);
            }
        }
    }

    /// element of a record / tuple / array literal: small expressions inline, others parenthesised
    fn field_value(&mut self, v: &Expr, ind: usize) {
        if let Expr::Lam(..) = v {
            // a lambda extends to the next `,` or closing bracket; recursive values must refer to
            // themselves through an unparenthesised lambda
            let c = self.col().max(ind);
            self.expr(v, c);
            return;
        }
        if is_small(v) && !self.style.redundant_parens {
            self.expr(v, ind + self.style.step);
        } else {
            self.operand(v, ind);
        }
    }

    pub fn finish(mut self) -> String {
        while self.out.ends_with(' ') {
            self.out.pop();
        }
        self.out.push('\n');
        self.out
    }
}

pub fn print_expr(e: &Expr, style: Style) -> String {
    let mut p = Printer::new(style);
    p.expr(e, 0);
    p.finish()
}

pub const SHW_PREAMBLE: &str = "#[implicit]
type Shw a = { shw : a -> String }
let shw ?d : [Shw a] -> a -> String = d.shw
let shw_int : Shw Int = { shw = \\x -> if x #Int< 0 then \"neg\" else if x #Int== 0 then \"zero\" else \"pos\" }
let shw_str : Shw String = { shw = \\x -> string.append \"s:\" x }
let shw_bool : Shw Bool = { shw = \\x -> if x then \"T\" else \"F\" }
let shw_opt ?d : [Shw a] -> Shw (Option a) = { shw = \\o ->
    match o with
    | Some x -> string.append \"S\" (d.shw x)
    | None -> \"N\" }
let shw_pair ?a ?b : [Shw a] -> [Shw b] -> Shw (a, b) = { shw = \\p -> string.append (a.shw p._0) (b.shw p._1) }
";

pub const DO_PREAMBLE: &str = "let flat_map f m =
    match m with
    | Some x -> f x
    | None -> None
";

pub const BASE_PREAMBLE: &str = "let { Bool, Option } = import! std.types
let { error, string_eq } = import! std.prim
let array = import! std.array.prim
let string = import! std.string.prim
";

pub fn print_program(p: &Program, style: Style) -> String {
    let mut s = String::new();
    s.push_str(BASE_PREAMBLE);
    if p.uses_fx {
        s.push_str("let fx = import! verif.fx\n");
    }
    if let Some(b) = &p.body {
        let mut uses_mod = false;
        super::gen::walk(b, &mut |e| {
            if let Expr::Var(v) = e {
                if v == "c04m" {
                    uses_mod = true;
                }
            }
        });
        if uses_mod {
            s.push_str("let c04m = import! c04mod\n");
        }
    }
    s.push_str(&p.extra_preamble);
    for t in &p.types {
        s.push_str(&format!("type {} =", t.name));
        for (c, args) in &t.ctors {
            s.push_str(&format!(" | {}", c));
            for a in args {
                s.push(' ');
                s.push_str(&ty_text(a, &p.types, true));
            }
        }
        s.push('\n');
    }
    if p.uses_shw {
        s.push_str(SHW_PREAMBLE);
    }
    if p.uses_do {
        s.push_str(DO_PREAMBLE);
    }
    if let Some(b) = &p.body {
        s.push_str(&print_expr(b, style));
    }
    s
}
