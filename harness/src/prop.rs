//! Property driver interface: a worker generates, executes and judges cases; the supervisor
//! (sup.rs) runs workers as child processes and aggregates.
use crate::rng::Rng;
use serde_json::{json, Map, Value};

#[derive(Clone, Copy, PartialEq, Eq, Debug)]
pub enum Tier {
    Quick,
    Thorough,
}

impl Tier {
    pub fn name(self) -> &'static str {
        match self {
            Tier::Quick => "quick",
            Tier::Thorough => "thorough",
        }
    }
    pub fn pick<T>(self, q: T, t: T) -> T {
        match self {
            Tier::Quick => q,
            Tier::Thorough => t,
        }
    }
}

#[derive(Clone, Copy, PartialEq, Eq, Debug)]
pub enum Build {
    Debug,
    Asan,
    Tsan,
    Release,
}

impl Build {
    pub fn name(self) -> &'static str {
        match self {
            Build::Debug => "debug",
            Build::Asan => "asan",
            Build::Tsan => "tsan",
            Build::Release => "release",
        }
    }
}

/// One phase of a property's workload
#[derive(Clone, Debug)]
pub struct Phase {
    pub name: &'static str,
    /// number of case indexes (0..cases); a worker may return `None` from `gen` to skip an index
    pub cases: u64,
    pub build: Build,
    /// number of worker processes
    pub workers: usize,
    /// wall-clock guard per case; firing => inconclusive
    pub case_timeout_s: u64,
    /// wall-clock guard for the whole phase; firing => remaining cases not run (counted)
    pub phase_timeout_s: u64,
    /// minimum number of executed (non-skip) cases for the phase to count as observed
    pub min_cases: u64,
    /// the phase enumerates a finite space completely
    pub exhaustive: bool,
}

impl Phase {
    pub fn new(name: &'static str, cases: u64) -> Phase {
        Phase {
            name,
            cases,
            build: Build::Debug,
            workers: 16,
            case_timeout_s: 120,
            phase_timeout_s: 900,
            min_cases: 1,
            exhaustive: false,
        }
    }
    pub fn build(mut self, b: Build) -> Phase {
        self.build = b;
        self
    }
    pub fn workers(mut self, n: usize) -> Phase {
        self.workers = n;
        self
    }
    pub fn timeouts(mut self, case_s: u64, phase_s: u64) -> Phase {
        self.case_timeout_s = case_s;
        self.phase_timeout_s = phase_s;
        self
    }
    pub fn min_cases(mut self, n: u64) -> Phase {
        self.min_cases = n;
        self
    }
    pub fn exhaustive(mut self, e: bool) -> Phase {
        self.exhaustive = e;
        self
    }
}

#[derive(Clone, Debug, PartialEq, Eq)]
pub enum Verdict {
    Ok,
    Violation,
    Inconclusive,
    /// case not applicable (e.g. input did not parse); counted, not an evaluation
    Skip,
}

#[derive(Clone, Debug)]
pub struct CaseResult {
    pub verdict: Verdict,
    /// non-trivial by the property's stated rule
    pub nontrivial: bool,
    /// hash identifying the case for distinctness
    pub hash: u64,
    /// what went wrong / why inconclusive
    pub msg: String,
    /// signature used to match known findings
    pub sig: Value,
    /// numeric observations summed over cases (events, objects walked, ...)
    pub stats: Map<String, Value>,
    /// feature labels seen in this case (for the coverage histogram)
    pub features: Vec<String>,
}

impl CaseResult {
    pub fn ok(hash: u64, nontrivial: bool) -> CaseResult {
        CaseResult {
            verdict: Verdict::Ok,
            nontrivial,
            hash,
            msg: String::new(),
            sig: Value::Null,
            stats: Map::new(),
            features: Vec::new(),
        }
    }
    pub fn skip(why: &str) -> CaseResult {
        let mut r = CaseResult::ok(0, false);
        r.verdict = Verdict::Skip;
        r.msg = why.to_string();
        r
    }
    pub fn inconclusive(hash: u64, why: impl Into<String>) -> CaseResult {
        let mut r = CaseResult::ok(hash, false);
        r.verdict = Verdict::Inconclusive;
        r.msg = why.into();
        r
    }
    pub fn violation(hash: u64, msg: impl Into<String>, sig: Value) -> CaseResult {
        let mut r = CaseResult::ok(hash, true);
        r.verdict = Verdict::Violation;
        r.msg = msg.into();
        r.sig = sig;
        r
    }
    pub fn stat(&mut self, k: &str, n: u64) -> &mut Self {
        let cur = self.stats.get(k).and_then(|v| v.as_u64()).unwrap_or(0);
        self.stats.insert(k.to_string(), json!(cur + n));
        self
    }
    pub fn feat(&mut self, f: impl Into<String>) -> &mut Self {
        self.features.push(f.into());
        self
    }
    pub fn to_json(&self) -> Value {
        json!({
            "v": match self.verdict { Verdict::Ok => "ok", Verdict::Violation => "viol", Verdict::Inconclusive => "inc", Verdict::Skip => "skip" },
            "nt": self.nontrivial, "h": self.hash, "msg": self.msg, "sig": self.sig, "stats": self.stats, "feat": self.features,
        })
    }
    pub fn from_json(v: &Value) -> CaseResult {
        CaseResult {
            verdict: match v["v"].as_str().unwrap_or("inc") {
                "ok" => Verdict::Ok,
                "viol" => Verdict::Violation,
                "skip" => Verdict::Skip,
                _ => Verdict::Inconclusive,
            },
            nontrivial: v["nt"].as_bool().unwrap_or(false),
            hash: v["h"].as_u64().unwrap_or(0),
            msg: v["msg"].as_str().unwrap_or("").to_string(),
            sig: v["sig"].clone(),
            stats: v["stats"].as_object().cloned().unwrap_or_default(),
            features: v["feat"].as_array().map(|a| a.iter().filter_map(|x| x.as_str().map(String::from)).collect()).unwrap_or_default(),
        }
    }
}

pub struct WorkerCtx {
    pub tier: Tier,
    pub seed: u64,
    pub phase: String,
    pub build: Build,
}

pub trait Worker {
    /// Generate case number `idx` of the phase (deterministic in (seed, phase, idx)); `None`
    /// means this index has no case. The returned JSON must contain everything needed to re-run
    /// the case (it is what a replay file stores). An optional `"key"` member is merged into the
    /// signature when the worker dies while running the case.
    fn gen(&mut self, rng: &mut Rng, idx: u64) -> Option<Value>;
    /// Execute the case against the real code and judge it.
    fn run(&mut self, case: &Value) -> CaseResult;
    /// Counters accumulated by the worker outside single cases
    fn finish(&mut self) -> Map<String, Value> {
        Map::new()
    }
}

pub trait Prop: Sync {
    fn id(&self) -> &'static str;
    /// evidence level: "exploration" | "translation_validation"
    fn level(&self) -> &'static str {
        "exploration"
    }
    fn rule(&self) -> &'static str;
    fn assumptions(&self) -> Vec<String> {
        Vec::new()
    }
    fn phases(&self, tier: Tier) -> Vec<Phase>;
    fn worker(&self, ctx: &WorkerCtx) -> Box<dyn Worker>;
    /// A dead worker (signal / abort / sanitizer report) while running a case refutes the
    /// property (true for nearly all properties: none permits crashing the host).
    fn death_is_violation(&self) -> bool {
        true
    }
    /// Minimum number of distinct non-trivial cases over all phases
    fn min_nontrivial(&self, _tier: Tier) -> u64 {
        2
    }
}
