#!/usr/bin/env python3
"""Regenerates the generated tables of DESIGN.md section A from known_findings.json and seeded/*/meta.json."""
import json, glob, os, re
root = os.path.dirname(os.path.abspath(__file__))
d = json.load(open(root + '/known_findings.json'))
rows = []
for e in d:
    w = e['what']
    if w.startswith('fixed:'):
        parts = w.split(' ', 3)
        w = parts[3] if len(parts) > 3 else w
    w = w.replace('|', '\\|').replace('\n', ' ')
    short = w[:260] + ('…' if len(w) > 260 else '')
    disp = ('fixed in `%s`' % e.get('commit', '')) if e['status'] == 'fixed' else 'listed'
    rows.append('| %s | %s | %s | %s |' % (e['id'], e['property'], disp, short))
ftable = '| id | property | disposition | what fails |\n|---|---|---|---|\n' + '\n'.join(rows) + '\n'
rows = []
for sd in sorted(glob.glob(root + '/seeded/*')):
    m = json.load(open(sd + '/meta.json'))
    missed = any('MISSED' in c for c in m.get('confirmed', []))
    cell = lambda s, n: s[:n].replace('|', '\\|').replace('\n', ' ')
    note = ('missed at first; ' + cell(m.get('strengthened', ''), 220)) if missed else 'caught as built'
    rows.append('| %s | %s | %s | %s | %s |' % (os.path.basename(sd), cell(m['summary'], 230), cell(m['needs'], 170), cell('; '.join(m['caught_by']), 170), note))
stable = '| seed | seeded change | needs to manifest | caught by | note |\n|---|---|---|---|---|\n' + '\n'.join(rows) + '\n'
p = root + '/DESIGN.md'
s = open(p).read()
s = re.sub(r'<!-- FINDINGS-BEGIN -->.*?<!-- FINDINGS-END -->', '<!-- FINDINGS-BEGIN -->\n' + ftable.replace('\\', '\\\\') + '<!-- FINDINGS-END -->', s, flags=re.S)
s = re.sub(r'<!-- SEEDED-BEGIN -->.*?<!-- SEEDED-END -->', '<!-- SEEDED-BEGIN -->\n' + stable.replace('\\', '\\\\') + '<!-- SEEDED-END -->', s, flags=re.S)
open(p, 'w').write(s)
print('findings', len(d), 'seeds', len(rows))
