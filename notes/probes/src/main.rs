use gluon::{new_vm, ThreadExt, Thread};
use gluon::vm::api::{OpaqueValue, Hole};

fn main() {
    let args: Vec<String> = std::env::args().collect();
    let vm = new_vm();
    let mut io = false; let mut prelude = true; let mut opt = true; let mut files = vec![];
    let mut mods: Vec<(String,String)> = vec![];
    let mut i = 1;
    while i < args.len() {
        match args[i].as_str() {
            "--io" => io = true,
            "--noprelude" => prelude = false,
            "--noopt" => opt = false,
            "--mod" => { let name = args[i+1].clone(); let src = std::fs::read_to_string(&args[i+2]).unwrap(); mods.push((name, src)); i += 2; }
            f => files.push(f.to_string()),
        }
        i += 1;
    }
    vm.get_database_mut().implicit_prelude(prelude).run_io(io).optimize(opt);
    for (n, s) in &mods {
        println!("load {} => {:?}", n, vm.load_script(n, s).map_err(|e| e.to_string()));
    }
    for f in files {
        let src = std::fs::read_to_string(&f).unwrap();
        for (k, chunk) in src.split("\n-----\n").enumerate() {
            let r = vm.run_expr::<OpaqueValue<&Thread, Hole>>(&format!("main{}", k), chunk);
            match r {
                Ok((v, t)) => println!("[{}] OK {:?} : {}", k, v, t),
                Err(e) => println!("[{}] ERR {}", k, e.to_string().lines().take(4).collect::<Vec<_>>().join(" | ")),
            }
        }
    }
}
