use gluon::{new_vm, ThreadExt, Thread};
use gluon::vm::api::{OpaqueValue, Hole};
fn main() {
    let n: usize = std::env::args().nth(1).and_then(|s| s.parse().ok()).unwrap_or(4);
    let vm = new_vm();
    let mut hs = vec![];
    for i in 0..n {
        let child = vm.new_thread().unwrap();
        hs.push(std::thread::spawn(move || {
            let src = format!(r#"
let list @ {{ List, ? }} = import! std.list
let array = import! std.array
let int = import! std.int
let mk n = [n, n + 1, n + 2, n + {i}]
rec let go n acc = if n == 0 then acc else go (n - 1) (array.len (mk n) + acc)
in go 2000 {i}
"#, i = i);
            let r = child.run_expr::<i64>(&format!("m{}", i), &src);
            r.map(|x| x.0).map_err(|e| e.to_string())
        }));
    }
    for (i, h) in hs.into_iter().enumerate() {
        println!("{} -> {:?}", i, h.join().unwrap());
    }
}
