use gluon::{new_vm, ThreadExt, query::{AsyncCompilation, CompilationBase}};
use std::panic::{catch_unwind, AssertUnwindSafe};
use std::collections::BTreeMap;
use std::sync::{Arc, Mutex};

struct Rng(u64);
impl Rng { fn next(&mut self) -> u64 { self.0 = self.0.wrapping_add(0x9E3779B97F4A7C15); let mut z = self.0; z = (z ^ (z >> 30)).wrapping_mul(0xBF58476D1CE4E5B9); z = (z ^ (z >> 27)).wrapping_mul(0x94D049BB133111EB); z ^ (z >> 31) } fn below(&mut self, n: usize) -> usize { (self.next() % n as u64) as usize } }

fn main() {
    let n: usize = std::env::args().nth(1).and_then(|s| s.parse().ok()).unwrap_or(2000);
    let seed: u64 = std::env::args().nth(2).and_then(|s| s.parse().ok()).unwrap_or(1);
    let loc = Arc::new(Mutex::new(String::new()));
    { let loc = loc.clone(); std::panic::set_hook(Box::new(move |info| { *loc.lock().unwrap() = format!("{}", info.location().map(|l| format!("{}:{}", l.file(), l.line())).unwrap_or_default()); })); }
    let vm = new_vm();
    vm.get_database_mut().implicit_prelude(false);
    let toks = ["let","in","rec","type","match","with","|","->","=","if","then","else","do","seq","\\","(",")","{","}","[","]",",",".","..",":","@","?","x","y","f","Foo","Int","1","2.5","\"s\"","'c'","+","#Int+","//c\n","/*c*/","forall","a","#[infix(left,4)]","import!","_","&&","1b","r#\"q\"#", "\n", "\n    ", "\n  ", " "];
    let mut files = vec![];
    for e in std::fs::read_dir("/repo/std").unwrap() { let p = e.unwrap().path(); if p.extension().map_or(false, |x| x == "glu") { files.push(std::fs::read_to_string(p).unwrap()); } }
    let mut rng = Rng(seed);
    let mut panics: BTreeMap<String, (usize, String)> = BTreeMap::new();
    let mut ok = 0; let mut err = 0;
    for i in 0..n {
        let src: String = match i % 3 {
            0 => { let k = 1 + rng.below(40); (0..k).map(|_| { let t = toks[rng.below(toks.len())]; format!("{} ", t) }).collect() }
            1 => { // mutate a std file fragment
                let f = &files[rng.below(files.len())];
                let lines: Vec<&str> = f.lines().collect();
                let start = rng.below(lines.len()); let len = 1 + rng.below(25);
                let mut frag: Vec<String> = lines[start..std::cmp::min(lines.len(), start+len)].iter().map(|s| s.to_string()).collect();
                for _ in 0..(1 + rng.below(3)) { if frag.is_empty() { break; } let j = rng.below(frag.len()); match rng.below(4) { 0 => { frag.remove(j); } 1 => { let l = frag[j].clone(); frag.insert(j, l); } 2 => { frag[j] = format!("  {}", frag[j]); } _ => { let l = &frag[j]; if !l.is_empty() { let mut c = rng.below(l.len()); while !l.is_char_boundary(c) { c -= 1; } frag[j] = l[..c].to_string(); } } } }
                frag.join("\n")
            }
            _ => { let k = rng.below(60); let bytes: Vec<u8> = (0..k).map(|_| { let b = rng.below(96) as u8 + 32; if rng.below(10) == 0 { b'\n' } else { b } }).collect(); String::from_utf8_lossy(&bytes).to_string() }
        };
        let name = format!("m{}", i);
        let r = catch_unwind(AssertUnwindSafe(|| {
            vm.get_database_mut().add_module(name.clone(), &src);
            let mut db = vm.get_database();
            let res = futures::executor::block_on(db.typechecked_source_module(name.clone(), None));
            match res { Ok(_) => true, Err(s) => { let _ = s.error.emit_string(); false } }
        }));
        match r { Ok(true) => ok += 1, Ok(false) => err += 1, Err(_) => { let l = loc.lock().unwrap().clone(); let e = panics.entry(l).or_insert((0, src.clone())); e.0 += 1; } }
    }
    println!("n={} ok={} err={} panics={}", n, ok, err, panics.values().map(|v| v.0).sum::<usize>());
    for (l, (c, s)) in &panics { println!("  {} x{}  e.g. {:?}", l, c, &s[..std::cmp::min(120, s.len())]); }
}
