use gluon::{new_vm, ThreadExt};
fn main() {
    let vm = new_vm();
    vm.get_database_mut().implicit_prelude(false);
    let progs = [
        r"(\r -> (r.y, r.x)) { x = 1, y = 2 }",
        r"let f r = (r.y, r.x) in (f { x = 1, y = 2 }, f { y = 1, x = 2, z = 3 })",
        r"\r -> if r.a then r.b else r.b",
        r"let g r = r.x in let h r = g r in h { x = 1 }",
        r"let f x = x in let g = f f in g 1",
        r"\a b -> if a #Int== b then { a, b } else { a = b, b = a }",
        r"\x -> { x, .. x }",
        r"\r -> { a = 1, .. r }",
        r"let r = { a = 1 } in { b = 2, .. r }",
        r"\x y -> [x, y]",
        r"\f -> (f 1, f 2)",
        r#"\f -> (f 1, f "a")"#,
        r"let apply f x = f x in apply (\r -> r.k) { k = 1, j = 2 }",
        r"\x -> match x with | { a, b } -> a",
        r"\x -> match x with | (a, b) -> a",
        r#"let { a, b } = { a = 1, b = "" } in (b, a)"#,
        r"let t = (1, 2, 3) in t._2",
        r"\t -> t._1",
];
    for (i, p) in progs.iter().enumerate() {
        match vm.typecheck_str(&format!("m{}", i), p, None) {
            Ok((_, t)) => println!("{:40} : {}", p, t),
            Err(e) => println!("{:40} ERR {}", p, e.to_string().lines().take(2).collect::<Vec<_>>().join(" | ")),
        }
    }
}
