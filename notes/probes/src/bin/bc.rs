use gluon::{new_vm, ThreadExt, Thread, compiler_pipeline::*};
use gluon::vm::api::{OpaqueValue, Hole};
use std::panic::{catch_unwind, AssertUnwindSafe};

fn run_pre(vm: &Thread, name: &str, buf: &[u8]) -> Result<String, String> {
    let mut de = serde_json::Deserializer::from_slice(buf);
    let r = futures::executor::block_on(Precompiled(&mut de).run_expr(&mut vm.module_compiler(&mut vm.get_database()), vm, name, "", ()));
    r.map(|v| format!("{:?}", v.value)).map_err(|e| e.to_string().lines().next().unwrap_or("").to_string())
}
fn main() {
    std::panic::set_hook(Box::new(|_| {}));
    let progs = [
        ("p0", r#"let f x = x #Int+ 1 in (f 1, "s", 2.5, 'c')"#),
        ("p1", r#"type T = | A Int | B String
let g t = match t with
          | A x -> { k = x, s = "a" }
          | B s -> { k = 0, s }
(g (A 3), g (B "zz"))"#),
        ("p2", r#"rec let ev n = if n #Int== 0 then 1 else od (n #Int- 1)
let od n = if n #Int== 0 then 0 else ev (n #Int- 1)
in (ev 10, [1,2,3], [1.5], ["a","b"])"#),
        ("p3", r#"let r = { a = 1, b = 2, c = 3, d = 4, e = 5, f = 6 }
let { a, f } = r
let h x y z = x #Int+ y #Int+ z
(h a f) 10"#),
    ];
    for (name, src) in progs.iter() {
        let vm = new_vm();
        vm.get_database_mut().implicit_prelude(false);
        let direct = vm.run_expr::<OpaqueValue<&Thread, Hole>>(name, src).map(|v| format!("{:?}", v.0)).map_err(|e| e.to_string());
        let mut buf = Vec::new();
        {
            let mut ser = serde_json::Serializer::new(&mut buf);
            futures::executor::block_on(vm.compile_to_bytecode(name, src, &mut ser)).map_err(|_| "ser err").unwrap();
        }
        let same = run_pre(&vm, name, &buf);
        let vm2 = new_vm();
        vm2.get_database_mut().implicit_prelude(false);
        let fresh = run_pre(&vm2, name, &buf);
        println!("{}: direct={:?}\n    same ={:?}\n    fresh={:?}  bytes={}", name, direct, same, fresh, buf.len());
        // truncations
        let mut errs = 0; let mut oks = 0; let mut panics = 0;
        let step = std::cmp::max(1, buf.len() / 200);
        let mut cut = 0;
        while cut < buf.len() {
            let vm3 = &vm2;
            let r = catch_unwind(AssertUnwindSafe(|| run_pre(vm3, name, &buf[..cut])));
            match r { Ok(Ok(_)) => oks += 1, Ok(Err(_)) => errs += 1, Err(_) => { panics += 1; if panics < 3 { println!("   PANIC at cut {}", cut); } } }
            cut += step;
        }
        println!("    truncations: err={} ok={} panic={}", errs, oks, panics);
    }
}
