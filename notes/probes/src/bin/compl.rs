use gluon::{new_vm, ThreadExt, query::{AsyncCompilation, CompilationBase}};
use gluon::base::pos::BytePos;
use std::panic::{catch_unwind, AssertUnwindSafe};
fn main() {
    let vm = new_vm();
    vm.get_database_mut().implicit_prelude(false);
    let progs = [
        "let f x y = { a = x, b = y }\nlet r = f 1 \"s\"\nmatch r with\n| { a, b } -> (a, r.b)\n",
        "type T a = | A a | B\nlet g t =\n    match t with\n    | A x -> [x, x]\n    | B -> []\ng (A 1.5)\n",
        "let id x = x\nlet rec_ = { id, k = \\a b -> a }\nrec_.k (rec_.id 1) (id \"\")\n",
    ];
    let mut queries = 0usize; let mut panics = 0usize; let mut cases = 0usize;
    std::panic::set_hook(Box::new(|_| {}));
    for (pi, p) in progs.iter().enumerate() {
        for cut in 0..=p.len() {
            if !p.is_char_boundary(cut) { continue; }
            let src = &p[..cut];
            let name = format!("p{}_{}", pi, cut);
            vm.get_database_mut().add_module(name.clone(), src);
            let mut db = vm.get_database();
            let res = futures::executor::block_on(db.typechecked_source_module(name.clone(), None));
            let expr = match res { Ok(v) => Some(v.expr), Err(s) => s.value.map(|v| v.expr) };
            let Some(expr) = expr else { continue };
            cases += 1;
            let env = vm.get_env();
            for off in 0..=src.len() + 1 {
                let pos = BytePos::from(off as u32 + 1);
                queries += 1;
                let r = catch_unwind(AssertUnwindSafe(|| {
                    let _ = gluon_completion::find(&env, gluon::base::pos::Span::new(BytePos::from(1), BytePos::from(src.len() as u32 + 1)), expr.expr(), pos);
                    let _ = gluon_completion::suggest(&env, gluon::base::pos::Span::new(BytePos::from(1), BytePos::from(src.len() as u32 + 1)), expr.expr(), pos);
                    let _ = gluon_completion::signature_help(&env, gluon::base::pos::Span::new(BytePos::from(1), BytePos::from(src.len() as u32 + 1)), expr.expr(), pos);
                }));
                if r.is_err() { panics += 1; if panics <= 5 { println!("PANIC prog={} cut={} off={} src={:?}", pi, cut, off, src); } }
            }
        }
    }
    println!("cases={} queries={} panics={}", cases, queries, panics);
}
