use gluon::{new_vm, ThreadExt, Thread};
use gluon::vm::api::{OpaqueValue, Hole};

fn main() {
    let src = r#"
let mk n = [n, n #Int+ 1, n #Int+ 2, n #Int+ 3]
rec let go n acc = if n #Int== 0 then acc else go (n #Int- 1) (mk n)
in go 200 (mk 0)
"#;
    for extra in [0usize, 8, 16, 24, 40, 56, 64, 100, 200, 1000] {
        let vm = new_vm();
        vm.get_database_mut().implicit_prelude(false);
        vm.run_expr::<OpaqueValue<&Thread, Hole>>("warm", "1").unwrap();
        vm.collect();
        let base = vm.allocated_memory();
        let limit = base + extra;
        vm.set_memory_limit(limit);
        let r = vm.run_expr::<OpaqueValue<&Thread, Hole>>("t", src);
        let after = vm.allocated_memory();
        println!("base={} limit={} after={} exceeded={} result={:?}", base, limit, after, after > limit, r.map(|_| ()).map_err(|e| e.to_string().lines().next().unwrap().to_string()));
    }
}
