use gluon::{new_vm, ThreadExt};
use gluon::base::types::{TypePtr, TypeFormatter};
fn main() {
    let vm = new_vm();
    vm.get_database_mut().implicit_prelude(false);
    let tys = [
        "Int -> Int",
        "(Int -> Int) -> Int",
        "forall a . a -> a",
        "(forall a . a -> a) -> Int",
        "{ x : Int, y : forall a . a -> a }",
        "forall r . { x : Int | r } -> Int",
        "[Int] -> Int",
        "forall a . [a] -> a -> a",
        "{ (+) : Int -> Int -> Int }",
        "Array (Int -> Int)",
        "Array (Array Int)",
        "(| A Int | B)",
        "forall r . (| A Int | r) -> Int",
        "{ T : Int }",
        "forall f a . f a -> f (f a)",
        "() -> ()",
        "(Int, String -> Int)",
        "forall e r a . [| st : Int | r |] a -> Int",
    ];
    for (i, t) in tys.iter().enumerate() {
        let src = format!("let f x : ({}) -> ({}) = x in f", t, t);
        match vm.typecheck_str(&format!("m{}", i), &src, None) {
            Ok((_, ty)) => {
                for w in [20usize, 40, 200] {
                    let s = format!("{}", TypeFormatter::<_, _, ()>::new(&ty).width(w));
                    let src2 = format!("let f x : {} = x in f", s.replace('\n', "\n    "));
                    let r2 = vm.typecheck_str(&format!("n{}_{}", i, w), &src2, None);
                    match r2 {
                        Ok((_, ty2)) => {
                            let s2 = format!("{}", TypeFormatter::<_, _, ()>::new(&ty2).width(w));
                            println!("{:45} w={:3} {} ", t, w, if s2 == s { "fix".to_string() } else { format!("DIFF\n  1: {}\n  2: {}", s, s2) });
                        }
                        Err(e) => println!("{:45} w={:3} REPARSE-ERR {}\n   printed: {}", t, w, e.to_string().lines().take(2).collect::<Vec<_>>().join(" | "), s),
                    }
                }
            }
            Err(e) => println!("{:45} ERR {}", t, e.to_string().lines().take(2).collect::<Vec<_>>().join(" | ")),
        }
    }
}
