use gluon::{ThreadExt, Thread};
use gluon::vm::api::{OpaqueValue, Hole};
fn main() {
    let t0 = std::time::Instant::now();
    let vm = gluon::new_vm();
    eprintln!("vm built {:?}", t0.elapsed());
    vm.get_database_mut().implicit_prelude(false);
    let src = r#"
let mk n = [n, n #Int+ 1, n #Int+ 2, n #Int+ 3]
rec let go n acc = if n #Int== 0 then acc else go (n #Int- 1) (mk n)
in go 30 (mk 0)
"#;
    let r = vm.run_expr::<OpaqueValue<&Thread, Hole>>("t", src);
    eprintln!("ran {:?}", t0.elapsed());
    println!("{:?}", r.map(|(v, _)| format!("{:?}", v)).map_err(|e| e.to_string()));
}
