use gluon::{new_vm, ThreadExt, RootedThread};
use gluon::vm::api::{OpaqueValue, Hole, FunctionRef, Getable};
use gluon::vm::thread::ThreadInternal;

fn main() {
    let vm2 = new_vm();
    let moved = {
        let vm1 = new_vm();
        vm1.get_database_mut().implicit_prelude(false);
        let (f, _) = vm1.run_expr::<OpaqueValue<RootedThread, Hole>>("f", r#"let k = 41 in let s = "abc" in \x -> (x #Int+ k, s)"#).unwrap();
        let rooted = f.into_inner();
        let moved = rooted.re_root(vm2.clone()).map_err(|e| e.to_string());
        println!("re_root: {:?}", moved.as_ref().map(|_| ()));
        drop(rooted);
        drop(vm1);
        moved
    };
    // churn allocator
    let mut junk = vec![];
    for i in 0..20000 { junk.push(vec![i as u8; 64 + (i % 200)]); }
    if let Ok(v) = moved {
        let mut f: FunctionRef<fn(i64) -> (i64, String)> = Getable::from_value(&vm2, v.get_variant());
        println!("call: {:?}", f.call(1).map_err(|e| e.to_string()));
    }
    println!("junk {}", junk.len());
}
