use gluon::{new_vm, ThreadExt, Thread};
use gluon::vm::api::{OpaqueValue, Hole};
use gluon::vm::verif;

fn report(vm: &Thread, label: &str) {
    let r = vm.verif_check_heaps();
    println!("{}: heaps={} live={} reachable={} edges={} bad={}", label, r.heaps, r.live_objects, r.reachable_objects, r.edges, r.bad.len());
    let mut kinds = std::collections::BTreeMap::new();
    for e in &r.bad { *kinds.entry((e.type_name, e.from.is_some(), e.to_heap.is_some())).or_insert(0usize) += 1; }
    for (k, c) in kinds { println!("    bad kind {:?} x{}", k, c); }
    for e in r.bad.iter().take(3) { println!("    e.g. {:?}", e); }
}

fn main() {
    let args: Vec<String> = std::env::args().collect();
    let k: usize = args.get(1).and_then(|s| s.parse().ok()).unwrap_or(0);
    let vm = new_vm();
    report(&vm, "fresh vm");
    let lmod = std::fs::read_to_string("t/lazy_mod.glu").unwrap();
    println!("load lmod {:?}", vm.load_script("lmod", &lmod).map_err(|e| e.to_string()));
    report(&vm, "after load lmod");
    verif::set_gc_stress(k);
    let main1 = r#"
let { force } = import! std.lazy
let array = import! std.array
let m = import! lmod
array.index (force m.l) 0
"#;
    let r = vm.run_expr::<i64>("main1", main1);
    println!("main1 -> {:?}", r.map(|x| x.0).map_err(|e| e.to_string()));
    report(&vm, "after first force");
    vm.collect();
    report(&vm, "after collect");
    verif::set_gc_stress(0);
    println!("forced={} freed={}", verif::FORCED_COLLECTIONS.load(std::sync::atomic::Ordering::SeqCst), verif::FREED_OBJECTS.load(std::sync::atomic::Ordering::SeqCst));
    let _ = std::any::type_name::<OpaqueValue<&Thread, Hole>>();
}
