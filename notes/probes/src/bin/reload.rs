use gluon::{new_vm, ThreadExt, Thread};
use gluon::vm::api::{OpaqueValue, Hole};

fn show(vm: &Thread, label: &str, src: &str) {
    let r = vm.run_expr::<OpaqueValue<&Thread, Hole>>("main", src);
    match r {
        Ok((v, t)) => println!("{}: OK {:?} : {}", label, v, t),
        Err(e) => println!("{}: ERR {}", label, e.to_string().lines().take(3).collect::<Vec<_>>().join(" | ")),
    }
}
fn main() {
    let vm = new_vm();
    println!("{:?}", vm.load_script("a", "1").map_err(|e| e.to_string()));
    println!("{:?}", vm.load_script("b", "let a = import! a in a + 10").map_err(|e| e.to_string()));
    show(&vm, "s1", "let b = import! b in b + 100");
    println!("{:?}", vm.load_script("a", "2").map_err(|e| e.to_string()));
    show(&vm, "s2 (expect 112)", "let b = import! b in b + 100");
    println!("{:?}", vm.load_script("a", "\"str\"").map_err(|e| e.to_string()));
    show(&vm, "s3 (expect type error in b)", "let b = import! b in b + 100");
    println!("{:?}", vm.load_script("a", "let b = import! b in b").map_err(|e| e.to_string().lines().next().unwrap_or("").to_string()));
    show(&vm, "s4 (expect cycle err)", "let b = import! b in b + 100");
    println!("{:?}", vm.load_script("a", "5").map_err(|e| e.to_string()));
    show(&vm, "s5 (expect 115)", "let b = import! b in b + 100");
}
