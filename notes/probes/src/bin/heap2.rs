use gluon::{new_vm, ThreadExt, Thread};
use gluon::vm::api::{OpaqueValue, Hole};

fn report(vm: &Thread, label: &str) {
    let r = vm.verif_check_heaps();
    println!("{}: heaps={} live={} reachable={} edges={} bad={}", label, r.heaps, r.live_objects, r.reachable_objects, r.edges, r.bad.len());
    let mut kinds = std::collections::BTreeMap::new();
    for e in &r.bad { *kinds.entry((e.type_name, e.from.is_some(), e.holder_heap, e.to_heap)).or_insert(0usize) += 1; }
    for (k, c) in kinds { println!("    bad kind {:?} x{}", k, c); }
}

fn main() {
    let vm = new_vm();
    vm.get_database_mut().run_io(true);
    for f in std::env::args().skip(1) {
        let src = std::fs::read_to_string(&f).unwrap();
        let r = vm.run_expr::<OpaqueValue<&Thread, Hole>>("main", &src);
        match &r { Ok((v, t)) => println!("{} OK {:?} : {}", f, v, t), Err(e) => println!("{} ERR {}", f, e.to_string().lines().next().unwrap_or("")) }
        report(&vm, "  while result rooted");
        drop(r);
        vm.collect();
        report(&vm, "  after drop+collect");
    }
}
