use gluon::{new_vm, ThreadExt, Thread};
use gluon::vm::api::{OpaqueValue, Hole};
use gluon::vm::thread::ThreadInternal;

fn main() {
    let vm = new_vm();
    vm.run_expr::<OpaqueValue<&Thread, Hole>>("warm", "let a = import! std.array in let l = import! std.list in 1").unwrap();
    vm.collect();
    let base = vm.allocated_memory();
    let (sl, fl) = { let c = vm.context(); { let mut c = c; let fl = c.frame_level(); (c.stack_frame::<gluon::vm::stack::State>().len(), fl) } };
    println!("baseline mem={} stack_len={} frames={}", base, sl, fl);
    let bad = r#"
let array = import! std.array
let mk n = [n, n + 1, n + 2, n + 3]
rec let go n acc =
    if n == 0 then (error "boom") else 1 + go (n - 1) (mk n)
in go 50 (mk 0)
"#;
    for i in 0..3 {
        let r = vm.run_expr::<OpaqueValue<&Thread, Hole>>("bad", bad);
        println!("run {} -> {:?}", i, r.map(|_| ()).map_err(|e| e.to_string().lines().next().unwrap().to_string()));
        vm.collect();
        let (sl, fl) = { let c = vm.context(); { let mut c = c; let fl = c.frame_level(); (c.stack_frame::<gluon::vm::stack::State>().len(), fl) } };
        println!("  after: mem={} stack_len={} frames={}", vm.allocated_memory(), sl, fl);
    }
    let r = vm.run_expr::<i64>("good", "1 + 2");
    println!("good -> {:?}", r.map(|x| x.0).map_err(|e| e.to_string()));
}
