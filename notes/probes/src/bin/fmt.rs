use gluon::{new_vm, ThreadExt};
fn main() {
    let vm = new_vm(); std::panic::set_hook(Box::new(|_| {}));
    let src = std::fs::read_to_string(std::env::args().nth(1).unwrap()).unwrap();
    for (k, chunk) in src.split("\n-----\n").enumerate() {
        let mut f = gluon_format::Formatter::default();
        let r0 = std::panic::catch_unwind(std::panic::AssertUnwindSafe(|| vm.format_expr(&mut f, &format!("f{}", k), chunk)));
        let r0 = match r0 { Ok(r) => r, Err(_) => { println!("[{}] PANIC", k); continue; } };
        match r0 {
            Ok(out) => {
                let again = vm.format_expr(&mut f, &format!("g{}", k), &out);
                println!("[{}] ----\n{}\n---- idempotent={:?}", k, out, again.as_ref().map(|a| a == &out).map_err(|e| e.to_string()));
                if let Ok(a) = again { if a != out { println!("SECOND:\n{}", a); } }
            }
            Err(e) => println!("[{}] ERR {}", k, e.to_string().lines().take(3).collect::<Vec<_>>().join(" | ")),
        }
    }
}
