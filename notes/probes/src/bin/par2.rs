use gluon::{new_vm, ThreadExt};
fn main() {
    let n: usize = std::env::args().nth(1).and_then(|s| s.parse().ok()).unwrap_or(4);
    let rounds: usize = std::env::args().nth(2).and_then(|s| s.parse().ok()).unwrap_or(5);
    for round in 0..rounds {
        let vm = new_vm();
        let barrier = std::sync::Arc::new(std::sync::Barrier::new(n));
        let mut hs = vec![];
        for i in 0..n {
            let child = vm.new_thread().unwrap();
            let b = barrier.clone();
            hs.push(std::thread::spawn(move || {
                let src = format!(r#"
let list @ {{ List, ? }} = import! std.list
let map = import! std.map
let array = import! std.array
let int = import! std.int
let string = import! std.string
let mk n = [n, n + 1, n + 2, n + {i}]
rec let go n acc = if n == 0 then acc else go (n - 1) (array.len (mk n) + acc)
in go 500 {i}
"#, i = i);
                b.wait();
                let r = child.run_expr::<i64>(&format!("m{}", i), &src);
                r.map(|x| x.0).map_err(|e| e.to_string().lines().take(2).collect::<Vec<_>>().join("|"))
            }));
        }
        let rs: Vec<_> = hs.into_iter().map(|h| h.join().map_err(|_| "PANIC")).collect();
        let ok = rs.iter().enumerate().all(|(i, r)| matches!(r, Ok(Ok(v)) if *v == 2000 + i as i64));
        println!("round {} ok={} {}", round, ok, if ok { String::new() } else { format!("{:?}", rs) });
    }
}
