#!/bin/sh
# Applies every seeded change to /repo in turn, runs the property's quick check and undoes the change.
# Expected: every line says exit=1 (the change is detected). Never run while anything else builds from /repo.
d="$(cd "$(dirname "$0")" && pwd)"
for s in "$d"/seeded/*; do
    name=$(basename "$s")
    id=$(echo "$name" | cut -c1-3)
    if ! git -C /repo apply "$s/patch.diff" 2>/dev/null; then echo "$name patch-does-not-apply"; continue; fi
    "$d/check" "$id" quick > "$d/harness/target/logs/seed-$name.log" 2>&1
    rc=$?
    git -C /repo checkout -- .
    echo "$name property=$id exit=$rc violations=$(grep -c '^VIOLATION' "$d/harness/target/logs/seed-$name.log")"
done
